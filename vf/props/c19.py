"""C19 — only well-formed, correctly addressed SysEx messages take effect.

R1  every state effect in the SysEx handlers is dominated by: device match (this id or broadcast),
    an exact test of the remaining payload size and, in the Roland handler, the checksum comparison;
    every hand-over from the framing function is dominated by F0/F7/min-size tests.
R2  acceptance <=> effect: a `return true` is dominated by an effect; no effect can reach a rejecting return.
R3  every payload read data[k] is covered by the size tests across the `data += n; size -= n` steps.
"""
from ..core import *
from ..logic import *
from ..report import Obl, Rule
from .. import build

PROP = 'C19'
RULES = [
    Rule('C19.R0', 'framing: every hand-over to a manufacturer handler is dominated by first byte F0, last byte F7 and a minimum size', 3),
    Rule('C19.R1', 'every state effect of a SysEx handler is dominated by device match + exact payload size (+ Roland checksum)', 8),
    Rule('C19.R2', 'acceptance <=> effect: return true only after an effect, no rejecting return after an effect', 8),
    Rule('C19.R3', 'payload reads stay inside the message (remaining-size discipline)', 15),
    Rule('C19.R4', 'the sequencer hands a SysEx event over with the status byte it read; every 4-bit device id can be selected', 2),
]
EXPLANATION = ('Static CFG analysis of OPNMIDIplay::realTime_SysEx and the handlers it dispatches to: for every statement that '
               'changes player/synth state the set of dominating branch conditions (edge-split dominators, single-definition locals '
               'substituted) must contain the device test, an exact size test and the Roland checksum test; accept/reject returns are '
               'tied to effects; a forward remaining-size dataflow bounds every payload subscript. Decides these necessary conditions '
               'for all byte strings; does not decide that the effect is the documented one.')
ASSUMPTIONS = ['callbacks invoked through hooks.* are not state effects of the synthesizer',
               'the caller passes `size` readable bytes at `msg` (API contract)',
               'checksum arithmetic is matched by shape ((128 - (sum & 127)) & 127), the byte range summed is not decided']


def views(tier):
    return ['V0', 'V1'] if tier == 'quick' else ['V0', 'V1', 'noVGM', 'noSEQ']


def _param(f, pred):
    for p in f.params:
        if pred(p):
            return p
    return None


def find_handlers(facts):
    entry = facts.fn('OPNMIDIplay::realTime_SysEx')
    names = []
    for b, j, st in entry.cfg.stmts():
        for c in calls_in(st['s']):
            n = callee_name(c)
            if n.startswith('OPNMIDIplay::') and n not in names and facts.fns.get(n):
                f = facts.fn(n)
                if f.d['ret'].get('bool') and any(p['t'].get('p') for p in f.params):
                    names.append(n)
    if len(names) < 3:
        raise build.AnalysisBroken('C19: fewer than 3 SysEx handlers found below realTime_SysEx (%s)' % names)
    return entry, [facts.fn(n) for n in names]


def device_field(facts):
    """the field stored by the device-id setter"""
    f = facts.fn('OPNMIDIplay::setDeviceId', required=False)
    if f:
        for b, j, st in f.cfg.stmts():
            for x in walk(st['s']):
                ap = assign_parts(x)
                if ap and ap[0].get('k') == 'MemberExpr':
                    return short(ap[0]['n'])
    return 'm_sysExDeviceId'


def effects_of(fn):
    """statements that change player/synth state: stores rooted at `this` and calls of non-const methods on `this`"""
    for b, j, st in fn.cfg.stmts():
        s = st['s']
        for x in walk(s):
            ap = assign_parts(x)
            tgt = None
            if ap:
                tgt = ap[0]
            elif is_incdec(x):
                tgt = x['e']
            if tgt is not None:
                r = root_object(tgt)
                if r is not None and r.get('k') == 'CXXThisExpr':
                    yield b, j, st, 'store ' + show(tgt)
                elif r is not None and r.get('k') in ('CXXMemberCallExpr', 'CXXOperatorCallExpr') and mentions(r, lambda y: y.get('k') == 'CXXThisExpr'):
                    yield b, j, st, 'store ' + show(tgt)
            if x.get('k') == 'CXXMemberCallExpr' and x.get('obj') is not None and x['obj'].get('k') == 'CXXThisExpr' \
                    and not x.get('cmeth') and callee_name(x).startswith('OPNMIDIplay::'):
                yield b, j, st, 'call ' + short(callee_name(x))


def classify(fn, facts_list, devfield, size_id, data_id, facts=None):
    kinds = set()
    for f in facts_list:
        # device: a true disjunction/equality whose alternatives are equalities on the device byte and one mentions the id field
        alts = None
        if f[0] == 'or':
            alts = f[1]
        elif f[0] == 'cmp':
            alts = [[f]]
        if alts is not None:
            eqs = []
            ok = True
            for alt in alts:
                if len(alt) != 1 or alt[0][0] != 'cmp' or alt[0][1] != '==':
                    ok = False
                    break
                eqs.append(alt[0])
            if ok and eqs and any(mentions(e[2], member_named(devfield)) or mentions(e[3], member_named(devfield)) for e in eqs):
                # every other alternative must be the broadcast id
                rest = [e for e in eqs if not (mentions(e[2], member_named(devfield)) or mentions(e[3], member_named(devfield)))]
                if all((cmp_norm(e) or (None, None, None))[2] == 0x7F for e in rest):
                    kinds.add('device')
                    # a comparison of only some bits of the device byte needs the remaining bits tested elsewhere
                    for e in eqs:
                        for side in (e[2], e[3]):
                            sx = strip(side)
                            if sx.get('k') == 'BinaryOperator' and sx['op'] == '&' and const_of(sx['r']) is not None and not mentions(sx, member_named(devfield)):
                                kinds.add('device-masked:%d' % const_of(sx['r']))
        # complement test of the device byte: (dev & 0xF0) == C as a comparison or as part of a switch operand
        def hi_mask(x):
            return x.get('k') == 'BinaryOperator' and x['op'] == '&' and const_of(x['r']) == 0xF0 and strip(x['l']).get('k') == 'DeclRefExpr' and strip(x['l']).get('parm')
        if f[0] == 'cmp' and f[1] == '==' and (mentions(f[2], hi_mask) or mentions(f[3], hi_mask)):
            kinds.add('device-hi')
        if f[0] == 'case' and mentions(f[1], hi_mask):
            kinds.add('device-hi')
        # `dev == 0x7F || (dev & 0xF0) == C`: the broadcast id, or the pinned high nibble
        if f[0] == 'or' and all(len(a) == 1 and a[0][0] == 'cmp' and a[0][1] == '==' for a in f[1]):
            lits = [a[0] for a in f[1]]
            hi = [e for e in lits if mentions(e[2], hi_mask) or mentions(e[3], hi_mask)]
            rest = [e for e in lits if e not in hi]
            if hi and all((cmp_norm(e) or (None, None, None))[2] == 0x7F and strip((cmp_norm(e) or (None, {}, None))[1]).get('parm') for e in rest):
                kinds.add('device-hi')
        if f[0] == 'cmp':
            n = cmp_norm(f)
            if n:
                op, e, c = n
                e = strip(e)
                if e.get('k') == 'DeclRefExpr' and e.get('id') == size_id:
                    if op == '==':
                        kinds.add('exact-size')
                    if op in ('>=', '>'):
                        kinds.add('min-size')
            if f[1] == '==':
                def last_byte(x):
                    x = canon_access(x) if x.get('k') == 'UnaryOperator' else x
                    if x.get('k') != 'ArraySubscriptExpr':
                        return False
                    i = strip(x['i'])
                    return (strip(x['b']).get('id') == data_id and i.get('k') == 'BinaryOperator' and i['op'] == '-'
                            and strip(i['l']).get('id') == size_id and const_of(i['r']) == 1)
                if mentions(f[2], last_byte) != mentions(f[3], last_byte):
                    other = f[3] if mentions(f[2], last_byte) else f[2]
                    other = strip(other)
                    if other.get('k') == 'DeclRefExpr' and _is_checksum_local(fn, other['id'], data_id):
                        kinds.add('checksum')
                    if 'callee' in other and facts is not None and _is_checksum_helper(facts, fn, other, data_id, size_id):
                        kinds.add('checksum')
    return kinds


def _is_checksum_local(fn, vid, data_id):
    """the local is accumulated from the payload bytes and finished with (128 - (v & 127)) & 127"""
    acc = fin = False
    # the bytes may be read through a local pointer that walks the payload
    from_data = {data_id}
    for x in walk(fn.tree):
        if isinstance(x, dict) and x.get('k') == 'DeclStmt':
            for v in x.get('decls', []):
                if v.get('init') is not None and (v.get('t') or {}).get('p') and strip(v['init']).get('k') == 'DeclRefExpr' and strip(v['init']).get('id') == data_id:
                    from_data.add(v['id'])
    for b, j, st in fn.cfg.stmts():
        for x in walk(st['s']):
            ap = assign_parts(x)
            if not ap or strip(ap[0]).get('id') != vid:
                continue
            l, r, op = ap
            if op == '+=' and mentions(r, lambda y: y.get('k') == 'DeclRefExpr' and y.get('id') in from_data):
                acc = True
            if op == '=':
                r = strip(r)
                # (128 - (v & 127)) & 127
                if r.get('k') == 'BinaryOperator' and r['op'] == '&' and const_of(r['r']) == 127:
                    a = strip(r['l'])
                    if a.get('k') == 'BinaryOperator' and a['op'] == '-' and const_of(a['l']) == 128:
                        m = strip(a['r'])
                        if m.get('k') == 'BinaryOperator' and m['op'] == '&' and const_of(m['r']) == 127 and strip(m['l']).get('id') == vid:
                            fin = True
    return acc and fin


def _is_checksum_helper(facts, fn, call, data_id, size_id):
    """the call hands the payload pointer and its size to a local helper that sums the bytes and returns (128 - (sum & 127)) & 127"""
    for cf in facts.fns.get(callee_name(call), [])[:1]:
        if not is_local_helper(fn, cf):
            return False
        args = call.get('a') or []
        pp = [i_ for i_, a in enumerate(args) if strip(a).get('id') == data_id]
        ps = [i_ for i_, a in enumerate(args) if strip(a).get('id') == size_id]
        if len(pp) != 1 or len(ps) != 1:
            return False
        p_data, p_size = cf.params[pp[0]]['id'], cf.params[ps[0]]['id']
        # the summing loop runs over all `size` bytes
        loops = [x for x in walk(cf.tree) if isinstance(x, dict) and x.get('k') in ('ForStmt', 'WhileStmt') and x.get('cond') is not None]
        full = any(strip(l_['cond']).get('k') == 'BinaryOperator' and strip(l_['cond']).get('op') == '<' and strip(strip(l_['cond'])['r']).get('id') == p_size for l_ in loops)
        for b, j, st in cf.cfg.returns():
            e = st['s'].get('e')
            if e is None:
                continue
            for y in walk(e):
                if isinstance(y, dict) and y.get('k') == 'DeclRefExpr' and not y.get('parm'):
                    # a local of the helper that is accumulated from the bytes; the return expression finishes it
                    acc = any(assign_parts(z) and strip(assign_parts(z)[0]).get('id') == y.get('id') and assign_parts(z)[2] == '+=' and
                              mentions(assign_parts(z)[1], lambda w: w.get('k') == 'DeclRefExpr' and w.get('id') == p_data) for z in walk(cf.tree) if isinstance(z, dict))
                    r = strip(e)
                    while isinstance(r, dict) and (r.get('k') or '').endswith('CastExpr'):
                        r = strip(r.get('e'))
                    fin = False
                    if r.get('k') == 'BinaryOperator' and r['op'] == '&' and const_of(r['r']) == 127:
                        a = strip(r['l'])
                        if a.get('k') == 'BinaryOperator' and a['op'] == '-' and const_of(a['l']) == 128:
                            m = strip(a['r'])
                            fin = m.get('k') == 'BinaryOperator' and m['op'] == '&' and const_of(m['r']) == 127 and strip(m['l']).get('id') == y.get('id')
                    if acc and fin and full:
                        return True
    return False


def size_updates_constant(fn, size_id):
    for b, j, st in fn.cfg.stmts():
        for x in walk(st['s']):
            ap = assign_parts(x)
            if ap and strip(ap[0]).get('id') == size_id:
                if ap[2] not in ('-=',) or const_of(ap[1]) is None:
                    return False
    return True


# ---- R3: remaining-size dataflow -------------------------------------------------------
def remaining_size_flow(fn, size_id, data_id, entry_state):
    """state = (lb, d): size >= lb and (bytes readable at data) = size + d.  Returns obligations list of
    (loc, construct, need, have, ok)."""
    cfg = fn.cfg
    state = {cfg.entry: entry_state}
    work = [cfg.entry]
    obl = {}

    def refine(st, edge):
        if st is None or edge is None or edge['kind'] != 'branch':
            return st
        lb, d = st
        for f in literals(edge['cond'], edge['pol']):
            n = cmp_norm(f) if f[0] == 'cmp' else None
            if n and strip(n[1]).get('id') == size_id:
                op, _, c = n
                if op == '>=':
                    lb = max(lb, c)
                elif op == '>':
                    lb = max(lb, c + 1)
                elif op == '==':
                    lb = max(lb, c)
                elif op == '!=' and c == lb:
                    lb = lb + 1
        return (lb, d)

    def need(st, stmt_loc, construct, k_needed, symbolic_size=False):
        lb, d = st
        if symbolic_size:       # index of the form size - c : needs d >= 1 - c ... handled by caller
            ok = k_needed
            obl[(stmt_loc, construct)] = (stmt_loc, construct, 'size-relative', 'avail=size%+d, size>=%d' % (d, lb), ok)
        else:
            ok = k_needed <= lb + d
            prev = obl.get((stmt_loc, construct))
            if prev is None or (prev[4] and not ok):
                obl[(stmt_loc, construct)] = (stmt_loc, construct, k_needed, lb + d, ok)

    def transfer(bid, st):
        b = cfg.blocks[bid]
        lb, d = st
        loops_over_size = set()
        items = [s['s'] for s in b['stmts']]
        locs = [s['loc'] for s in b['stmts']]
        if 'cond' in b:
            items.append(b['cond']); locs.append(b.get('cloc', '?'))
        for s, loc in zip(items, locs):
            # reads first (statement order inside a root is approximated: reads before updates); `*(data + k)` is data[k]
            for x in walk(canon_access(s)):
                if x.get('k') == 'ArraySubscriptExpr' and strip(x['b']).get('id') == data_id:
                    i = strip(x['i'])
                    c = const_of(x['i'])
                    if c is not None:
                        need((lb, d), loc, show(x), c + 1)
                    elif i.get('k') == 'BinaryOperator' and i['op'] == '-' and strip(i['l']).get('id') == size_id and const_of(i['r']) is not None:
                        cc = const_of(i['r'])
                        # index size-cc readable iff size-cc+1 <= size+d  and size >= cc
                        need((lb, d), loc, show(x), (1 - cc <= d) and (lb >= cc), symbolic_size=True)
                    else:
                        # index variable bounded by a dominating `i < size` loop condition
                        bounded = False
                        for e in cfg.dominating_edges(bid):
                            if e['kind'] == 'branch' and e['pol']:
                                for f in literals(e['cond'], True):
                                    if f[0] == 'cmp' and f[1] == '<' and strip(f[2]).get('id') == i.get('id') and strip(f[3]).get('id') == size_id:
                                        bounded = True
                                    # `i + k < size` with k >= 0 implies i < size
                                    l_ = strip(f[2]) if f[0] == 'cmp' else None
                                    if f[0] == 'cmp' and f[1] in ('<', '<=') and l_.get('k') == 'BinaryOperator' and l_.get('op') == '+' and strip(f[3]).get('id') == size_id and \
                                            strip(l_['l']).get('id') == i.get('id') and (const_of(l_['r']) or 0) >= (0 if f[1] == '<' else 1):
                                        bounded = True
                                    # `i < size - k`, k >= 0, where size >= k is known (no wrap-around of the unsigned difference)
                                    r_ = strip(f[3]) if f[0] == 'cmp' else None
                                    if f[0] == 'cmp' and f[1] == '<' and strip(f[2]).get('id') == i.get('id') and r_.get('k') == 'BinaryOperator' and r_.get('op') == '-' and \
                                            strip(r_['l']).get('id') == size_id and const_of(r_['r']) is not None and 0 <= const_of(r_['r']) <= lb:
                                        bounded = True
                        need((lb, d), loc, show(x), bounded and d >= 0, symbolic_size=True)
            for x in walk(s):
                ap = assign_parts(x)
                tgt = val = None
                if ap:
                    tgt, val, op = ap
                    tid = strip(tgt).get('id') if strip(tgt).get('k') == 'DeclRefExpr' else None
                    c = const_of(val)
                    if tid == size_id:
                        if op == '-=' and c is not None:
                            if lb < c:
                                obl[(loc, show(x))] = (loc, show(x), 'size >= %d before subtracting' % c, 'size>=%d' % lb, False)
                            lb = max(lb - c, 0); d += c
                        else:
                            lb = 0; d = -10**6
                    elif tid == data_id:
                        if op == '+=' and c is not None:
                            d -= c
                        else:
                            d = -10**6
                elif is_incdec(x) and strip(x['e']).get('k') == 'DeclRefExpr':
                    tid = strip(x['e']).get('id')
                    if tid == size_id:
                        if x['op'] == '--':
                            if lb < 1:
                                obl[(loc, show(x))] = (loc, show(x), 'size >= 1 before decrement', 'size>=%d' % lb, False)
                            lb = max(lb - 1, 0); d += 1
                        else:
                            d -= 1; lb += 1
                    elif tid == data_id:
                        d += -1 if x['op'] == '++' else 1
        return (lb, d)

    out_state = {}
    while work:
        bid = work.pop()
        st = state[bid]
        o = transfer(bid, st)
        out_state[bid] = o
        b = cfg.blocks[bid]
        for k, s in enumerate(b['succ']):
            if s is None:
                continue
            ns = refine(o, cfg.edge_info(bid, k))
            old = state.get(s)
            if old is None:
                new = ns
            else:
                new = (min(old[0], ns[0]), min(old[1], ns[1]))
            if new != old:
                state[s] = new
                work.append(s)
    return list(obl.values()), state, out_state


def analyse(facts, tier):
    obls = []
    entry, handlers = find_handlers(facts)
    devfield = device_field(facts)

    # ---- R0 framing in the entry function, and call-site states for R3
    e_size = _param(entry, lambda p: not p['t'].get('p') and p['t'].get('w') == 64)
    e_data = _param(entry, lambda p: p['t'].get('p'))
    if not e_size or not e_data:
        raise build.AnalysisBroken('C19: realTime_SysEx has no (pointer, size) parameters')
    sd = single_defs(entry.d)
    r3, st_in, st_out = remaining_size_flow(entry, e_size['id'], e_data['id'], (0, 0))
    call_states = {}
    for b, j, st in entry.cfg.stmts():
        for c in calls_in(st['s']):
            n = callee_name(c)
            if n in [h.name for h in handlers]:
                fl = []
                for e in entry.cfg.dominating_edges(b):
                    fl += edge_facts(e, sd)
                have = set()
                for f in fl:
                    if f[0] == 'cmp' and f[1] == '==':
                        for a, bb in ((f[2], f[3]), (f[3], f[2])):
                            a = strip(a)
                            if a.get('k') == 'ArraySubscriptExpr' and strip(a['b']).get('id') == e_data['id']:
                                if const_of(a['i']) == 0 and const_of(bb) == 0xF0:
                                    have.add('F0-first')
                                i = strip(a['i'])
                                if i.get('k') == 'BinaryOperator' and i['op'] == '-' and strip(i['l']).get('id') == e_size['id'] and const_of(i['r']) == 1 and const_of(bb) == 0xF7:
                                    have.add('F7-last')
                    n2 = cmp_norm(f) if f[0] == 'cmp' else None
                    if n2 and strip(n2[1]).get('id') == e_size['id'] and n2[0] in ('>=', '>'):
                        have.add('min-size')
                missing = {'F0-first', 'F7-last', 'min-size'} - have
                # 7-bit data screen: a loop over the bytes between the frame bytes that rejects any byte with bit 7 set finishes
                # before the hand-over (the handlers mask with 0x7F what they decode, so F0 7E 7F 89 81 F7 would act as GM System On)
                scr = data_screen(entry, e_data['id'], e_size['id'], b)
                obls.append(Obl('C19.R0', entry.name, '7-bit data screen before ' + short(n), st['loc'], 'discharged' if scr else 'finding',
                                why='every byte between F0 and F7 is tested against 0x80 (%s)' % scr if scr else
                                'no loop rejects bytes with bit 7 set before the hand-over: the handlers mask the bytes they decode, so a malformed string (data byte >= 0x80) is accepted and takes effect'))
                # the size passed on must exclude the framing bytes: args are the advanced pointer and reduced size
                obls.append(Obl('C19.R0', entry.name, 'call ' + short(n), st['loc'], 'finding' if missing else 'discharged',
                                why=('missing framing guard(s): ' + ', '.join(sorted(missing))) if missing else 'framing guards dominate the hand-over',
                                detail={'guards': sorted(have)}))
                # argument mapping for R3
                args = c.get('a', [])
                hf = facts.fn(n)
                pi_data = [i for i, p in enumerate(hf.params) if p['t'].get('p')]
                pi_size = [i for i, p in enumerate(hf.params) if not p['t'].get('p') and p['t'].get('w') == 64]
                ok_args = (pi_data and pi_size and strip(args[pi_data[0]]).get('id') == e_data['id'] and strip(args[pi_size[0]]).get('id') == e_size['id'])
                cs = st_in.get(b)
                # state at the call = out state of the block is fine (calls come last in their block); use in-state refined by block transfer
                call_states.setdefault(n, []).append(st_out.get(b) if ok_args else None)
    for (loc, construct, needv, have, ok) in r3:
        obls.append(Obl('C19.R3', entry.name, construct, loc, 'discharged' if ok else 'finding',
                        why='needs %s byte(s), %s known available' % (needv, have), detail={'need': str(needv), 'have': str(have)}))
    # effects directly in the framing function would bypass every handler guard
    for b, j, st, what in effects_of(entry):
        if what.startswith('call ') and ('OPNMIDIplay::' + what[5:]) in [h.name for h in handlers]:
            continue
        obls.append(Obl('C19.R1', entry.name, what, st['loc'], 'finding', why='state effect in the framing function, outside the device/size guards'))

    for h in handlers:
        size = _param(h, lambda p: not p['t'].get('p') and p['t'].get('w') == 64)
        data = _param(h, lambda p: p['t'].get('p'))
        if not size or not data:
            raise build.AnalysisBroken('C19: handler %s has no (pointer, size) parameters' % h.name)
        sd = single_defs(h.d)
        roland = 'roland' in h.name.lower()
        const_upd = size_updates_constant(h, size['id'])
        eff = list(effects_of(h))
        eff_blocks = {}
        for b, j, st, what in eff:
            fl = expand_helper_calls(facts, guard_facts(h, b, st, sd))      # `if(!isGsDeviceNumber(dev)) break;` reads as the test it names
            kinds = classify(h, fl, devfield, size['id'], data['id'], facts)
            need = {'device', 'exact-size'} | ({'checksum'} if roland else set())
            if not const_upd:
                kinds.discard('exact-size')
            if any(k.startswith('device-masked') for k in kinds) and 'device-hi' not in kinds:
                kinds.discard('device')      # only the low nibble is compared and nothing pins the rest of the device byte
            miss = need - kinds
            cases = [fact_str(f) for f in fl if f[0] == 'case']
            obls.append(Obl('C19.R1', h.name, what, st['loc'], 'finding' if miss else 'discharged',
                            why=('effect not guarded by: ' + ', '.join(sorted(miss))) if miss else 'guards dominate the effect',
                            detail={'guards': sorted(kinds), 'needs': sorted(need), 'under': cases}))
            eff_blocks.setdefault(b, []).append(j)
            # Roland messages addressed to the broadcast id 7F must reach the effect: every guard that constrains only the device
            # parameter has to be satisfiable by 0x7F
            if roland:
                blocked = None
                for f in fl:
                    v = fold_dev(f, 0x7F)
                    if v is False:
                        blocked = fact_str(f)
                obls.append(Obl('C19.R1', h.name, what + ' (broadcast id)', st['loc'], 'finding' if blocked else 'discharged',
                                why='the guard %s is false for device byte 7F: a message addressed to the broadcast id never takes effect and is reported as rejected' % blocked if blocked else
                                'every device guard holds for 7F', nontrivial=False))
        # R2: acceptance and rejection points.  `return true` / `return false`, or - single-exit form - `accepted = true` / `= false`
        # stored into the bool local that the function returns (initialised false: reaching the return without an acceptance point
        # rejects)
        acc_sites, rej_sites, var_form = [], [], False
        for b, j, st in h.cfg.returns():
            rv = st['s'].get('e')
            c = const_of(rv) if rv else None
            if c is not None:
                (acc_sites if c else rej_sites).append((b, j, st))
                continue
            r_ = strip(rv) if rv else None
            ok_var = False
            if r_ is not None and r_.get('k') == 'DeclRefExpr' and not r_.get('parm'):
                writes = []
                init_c = None
                for b2, j2, st2 in h.cfg.stmts():
                    if st2['s'].get('k') == 'DeclStmt':
                        for v in st2['s']['decls']:
                            if v['id'] == r_['id']:
                                init_c = const_of(v.get('init')) if v.get('init') is not None else None
                    for x in walk(st2['s']):
                        ap = assign_parts_raw(x) if isinstance(x, dict) else None
                        if ap and strip(ap[0]).get('id') == r_['id']:
                            writes.append((b2, j2, st2, const_of(ap[1]) if ap[2] == '=' else None))
                if init_c == 0 and writes and all(w[3] is not None for w in writes):
                    ok_var = True
                    var_form = True
                    for b2, j2, st2, cv in writes:
                        (acc_sites if cv else rej_sites).append((b2, j2, st2))
            if not ok_var:
                obls.append(Obl('C19.R2', h.name, show(st['s']), st['loc'], 'finding', why='acceptance value is not a constant; cannot be tied to an effect'))
        for b, j, st in acc_sites:
            if True:
                dom_ok = any((eb == b and min(js) < j) or (eb != b and h.cfg.block_dominates(eb, b)) for eb, js in eff_blocks.items())
                if not dom_ok:
                    # idiom: the effect sits in a counted loop body or under a NULL test of the synth pointer
                    # directly in front of the return: every condition that guards the effect but not the
                    # return must be a loop condition or a pointer test
                    r_edges = {(e['block'], e['target']) for e in h.cfg.dominating_edges(b)}
                    for eb, js in eff_blocks.items():
                        if not h.cfg.reaches(eb, b):
                            continue
                        extra = [e for e in h.cfg.dominating_edges(eb) if (e['block'], e['target']) not in r_edges]
                        def benign(e):
                            if e['kind'] != 'branch':
                                return False
                            if e.get('term') in ('ForStmt', 'WhileStmt'):
                                return True
                            c = strip(e['cond'])
                            return e['pol'] and (c.get('t', {}).get('p') or short(c.get('callee', '')) == 'get')
                        if extra and all(benign(e) for e in extra):
                            dom_ok = True
                obls.append(Obl('C19.R2', h.name, 'return true', st['loc'], 'discharged' if dom_ok else 'finding',
                                why='dominated by a state effect' if dom_ok else 'message reported as accepted on a path without any effect'))
        pd_h = h.cfg.pdom()
        for b, j, st, what in eff:
            bad = []
            for rb, rj, rst in rej_sites:
                if (rb == b and rj > j) or h.cfg.reaches(b, rb):
                    bad.append(rst['loc'].rsplit(':', 1)[1])
            if var_form and not bad:
                # every way from the effect to the single return passes an acceptance point
                passes = any((ab == b and aj > j) or (ab != b and ('b', ab) in (pd_h.get(('b', b)) or ())) for ab, aj, ast in acc_sites)
                if not passes:
                    bad.append('the return (no acceptance point on the way)')
            obls.append(Obl('C19.R2', h.name, what + ' => accept', st['loc'], 'finding' if bad else 'discharged',
                            why=('effect can reach rejecting return at line(s) ' + ','.join(sorted(set(bad)))) if bad else 'every return after the effect accepts'))
        # R3
        css = call_states.get(h.name, [])
        if not css or any(c is None for c in css):
            obls.append(Obl('C19.R3', h.name, 'entry state', h.loc, 'finding', why='handler is not called with the (advanced pointer, reduced size) pair of the framing function'))
            continue
        es = (min(c[0] for c in css), min(c[1] for c in css))
        r3, _, _ = remaining_size_flow(h, size['id'], data['id'], es)
        for (loc, construct, needv, have, ok) in r3:
            obls.append(Obl('C19.R3', h.name, construct, loc, 'discharged' if ok else 'finding',
                            why='needs %s, have %s' % (needv, have), detail={'need': str(needv), 'have': str(have), 'entry_state': 'size>=%d, avail=size%+d' % es}))
    obls += r4_frame_and_id(facts)
    return obls



def r4_frame_and_id(facts):
    """(a) framing is judged on the bytes of the file: in the SysEx branch of parseEvent the first byte stored into the event is the status
    byte that was read (F0 or the F7 escape), not a constant — otherwise an F7 escape event is turned into an F0-framed message.
    (b) handlers compare the low nibble of the device byte with the configured id, so the setter must accept exactly 0..15."""
    from ..e2 import Engine2
    out = []
    pe = None
    for nm in ('OpnMidiSequencer::parseEvent', 'BW_MidiSequencer::parseEvent'):
        if facts.fns.get(nm):
            pe = facts.fn(nm)
    if pe is not None:
        first = None
        for b, j, st in pe.cfg.stmts():
            gf = guard_facts(pe, b, st)
            in_sysex = any(f[0] == 'or' and 'T_SYSEX' in fact_str(f) for f in gf) or any('T_SYSEX' in fact_str(f) and f[0] == 'cmp' and f[1] == '==' for f in gf)
            if not in_sysex:
                continue
            for x in calls_in(st['s']):
                if short(callee_name(x)) == 'push_back' and x.get('obj') is not None and short(strip(x['obj']).get('n', '')) == 'data' and first is None:
                    first = (st, x)
        if first is None:
            raise build.AnalysisBroken('C19.R4: the first push_back of the SysEx branch of parseEvent was not found')
        a = strip(first[1]['a'][0])
        # the status byte local: the one compared with T_SYSEX in the guard
        okb = a.get('k') == 'DeclRefExpr' and not a.get('parm') and any(('%s == T_SYSEX' % short(a['n'])) in fact_str(f) for f in guard_facts(pe, [b for b, j, st in pe.cfg.stmts() if st is first[0]][0], first[0]))
        out.append(Obl('C19.R4', pe.name, 'first byte of a SysEx event = status byte read', first[0]['loc'], 'discharged' if okb else 'finding',
                       why='data.push_back(%s): the byte that was compared with T_SYSEX / T_SYSEX2' % show(a) if okb else
                       'the event is given %s as its first byte instead of the status byte read from the file: an F7 escape event reaches the SysEx handlers framed as F0' % show(a)))
    sd = facts.fn('opn2_setDeviceIdentifier')
    eng = Engine2(facts, {}, {}, {})
    vals = []
    def hook(eng, e, st):
        for x in calls_in(e):
            if short(callee_name(x)) == 'setDeviceId' and x.get('a'):
                vals.append((x.get('ln'), eng.ev(x['a'][0], st)))
    eng.value_hooks.append(hook)
    eng.run(sd, record=True)
    if not vals:
        raise build.AnalysisBroken('C19.R4: setDeviceId call of opn2_setDeviceIdentifier not reached')
    for ln, v in vals:
        ok = v is not None and v.lo == 0 and v.hi == 15
        out.append(Obl('C19.R4', sd.name, 'accepted device ids', '%s:%s' % (sd.file, ln), 'discharged' if ok else 'finding',
                       why='exactly 0..15' if ok else 'the setter accepts %s, the handlers match the 4-bit ids 0..15: an id outside the accepted set cannot be selected (the previous id stays in force), an id above 15 can never match' % v))
    return out


def data_screen(fn, data_id, size_id, call_block):
    """a `for(i = k; i + 1 < size (or i < size - 1); ++i) if(data[i] & 0x80) return false;` whose exit dominates the call block;
    k <= 1 (the frame byte itself may be included).  Returns a description or None."""
    def rec(t):
        if isinstance(t, dict):
            if t.get('k') in ('ForStmt', 'WhileStmt'):
                yield t
            for k2 in ('body', 'then', 'else', 'sub'):
                v = t.get(k2)
                if isinstance(v, (dict, list)):
                    for y in rec(v):
                        yield y
        elif isinstance(t, list):
            for y in t:
                for z in rec(y):
                    yield z
    for loop in rec(fn.tree):
        # induction variable and start
        iv = start = None
        init = loop.get('init')
        for y in walk(init):
            if isinstance(y, dict) and y.get('k') == 'DeclStmt':
                for v in y.get('decls', []):
                    iv, start = v['id'], const_of(v.get('init'))
            ap = assign_parts(y) if isinstance(y, dict) else None
            if ap and strip(ap[0]).get('k') == 'DeclRefExpr':
                iv, start = strip(ap[0])['id'], const_of(ap[1])
        if loop.get('k') == 'WhileStmt':
            # `i = k; while(i < n) { ..; i++; }`: the counter is the left operand of the condition, defined with a constant before the
            # loop and written nowhere else than by one increment inside the body
            c0 = strip(loop.get('cond'))
            cand = strip(c0['l']) if c0 is not None and c0.get('k') == 'BinaryOperator' else None
            while cand is not None and cand.get('k') == 'BinaryOperator':
                cand = strip(cand['l'])
            if cand is not None and cand.get('k') == 'DeclRefExpr':
                writes = [y for y in walk(fn.tree) if isinstance(y, dict) and ((assign_parts_raw(y) and strip(assign_parts_raw(y)[0]).get('id') == cand['id']) or (is_incdec(y) and strip(y['e']).get('id') == cand['id']))]
                in_body = [y for y in walk(loop.get('body')) if isinstance(y, dict) and any(y is w for w in writes)]
                decl = [v for y in walk(fn.tree) if isinstance(y, dict) and y.get('k') == 'DeclStmt' for v in y.get('decls', []) if v['id'] == cand['id']]
                if len(writes) == 1 and len(in_body) == 1 and is_incdec(writes[0]) and writes[0]['op'] == '++' and decl and const_of(decl[0].get('init')) is not None:
                    iv, start = cand['id'], const_of(decl[0]['init'])
        if iv is None or start is None or start > 1:
            # any other way of walking the bytes (a pointer with an end pointer, a counter with another name or origin): read the loop
            # through affine forms in its round counter #k - the byte tested in round #k is data[s + #k] with s <= 1, and the loop
            # goes on while s + #k has not reached size - 1 (or size)
            from .. import affine as _aff
            for y in walk(loop.get('body')):
                if not (isinstance(y, dict) and y.get('k') == 'IfStmt'):
                    continue
                m = [z for z in walk(y.get('cond')) if isinstance(z, dict) and z.get('k') == 'BinaryOperator' and (
                     (z.get('op') == '&' and 0x80 in (const_of(z['l']), const_of(z['r']))) or
                     (z.get('op') == '>=' and const_of(z['r']) == 0x80) or (z.get('op') == '>' and const_of(z['r']) == 0x7F))]
                ret = [z for z in walk(y.get('then')) if isinstance(z, dict) and z.get('k') == 'ReturnStmt' and const_of(z.get('e')) == 0]
                reads = [z for z in walk(y.get('cond')) if isinstance(z, dict) and (z.get('k') == 'ArraySubscriptExpr' or (z.get('k') == 'UnaryOperator' and z.get('op') == '*'))]
                if not (m and ret and len(reads) == 1):
                    continue
                eng_ = _aff.Affine(fn, [], {})
                env_ = eng_.run(lambda node, env__, e__, y=y: node is y.get('cond'))
                if env_ is None:
                    continue
                dn = [p_['n'] for p_ in fn.params if p_['id'] == data_id]
                sn = [p_['n'] for p_ in fn.params if p_['id'] == size_id]
                if not dn or not sn:
                    continue
                A = _aff.address_form(eng_, reads[0], env_)
                c_ = strip(loop.get('cond'))
                if A is None or c_ is None or c_.get('k') != 'BinaryOperator' or c_.get('op') not in ('<', '!='):
                    continue
                D = _aff.add_forms(eng_.form(c_['l'], env_), eng_.form(c_['r'], env_), -1)
                if A[0] == {dn[0]: 1, '#k': 1} and 0 <= A[1] <= 1 and D is not None and D[0] == {'#k': 1, sn[0]: -1} and A[1] <= D[1] <= A[1] + 1:
                    for bid, blk in fn.cfg.blocks.items():
                        if blk.get('term') in ('ForStmt', 'WhileStmt') and blk.get('cond') is not None and show(blk['cond']) == show(loop.get('cond')) and fn.cfg.block_dominates(bid, call_block):
                            return 'loop at line %s (bytes %d.. of the message, round counter form)' % (loop.get('ln'), A[1])
            continue
        c = strip(loop.get('cond'))
        covers = False
        if c is not None and c.get('k') == 'BinaryOperator' and c.get('op') == '<':
            l, r = strip(c['l']), strip(c['r'])
            if l.get('k') == 'BinaryOperator' and l['op'] == '+' and strip(l['l']).get('id') == iv and const_of(l['r']) == 1 and r.get('id') == size_id:
                covers = True
            if l.get('id') == iv and r.get('k') == 'BinaryOperator' and r['op'] == '-' and strip(r['l']).get('id') == size_id and const_of(r['r']) == 1:
                covers = True
            if l.get('id') == iv and r.get('id') == size_id:
                covers = True
        if not covers:
            continue
        # body: if(data[iv] & 0x80 ...) return false
        rejects = False
        for y in walk(loop.get('body')):
            if isinstance(y, dict) and y.get('k') == 'IfStmt':
                m = [z for z in walk(y.get('cond')) if isinstance(z, dict) and z.get('k') == 'BinaryOperator' and (
                     (z.get('op') == '&' and 0x80 in (const_of(z['l']), const_of(z['r']))) or
                     (z.get('op') == '>=' and const_of(z['r']) == 0x80) or (z.get('op') == '>' and const_of(z['r']) == 0x7F))]
                sub = [z for z in walk(canon_access(y.get('cond'))) if isinstance(z, dict) and z.get('k') == 'ArraySubscriptExpr' and strip(z['b']).get('id') == data_id and strip(z['i']).get('id') == iv]
                ret = [z for z in walk(y.get('then')) if isinstance(z, dict) and z.get('k') == 'ReturnStmt' and const_of(z.get('e')) == 0]
                if m and sub and ret:
                    rejects = True
        if not rejects:
            continue
        # the loop precedes the call: its header block dominates the call block
        for bid, blk in fn.cfg.blocks.items():
            if blk.get('term') in ('ForStmt', 'WhileStmt') and blk.get('cond') is not None and show(blk['cond']) == show(loop.get('cond')) and fn.cfg.block_dominates(bid, call_block):
                return 'loop at line %s' % loop.get('ln')
    return None


def fold_dev(f, value):
    """truth of a guard fact when the device parameter has the given value; None when the fact involves anything else"""
    def ev(e):
        e = strip(e)
        if e is None:
            return None
        c = const_of(e)
        if c is not None:
            return c
        if e.get('k') == 'DeclRefExpr' and e.get('parm') and not (e.get('t') or {}).get('p') and (e.get('t') or {}).get('w') == 32:
            return value        # the device byte: the only 32-bit scalar parameter of the manufacturer handlers
        if e.get('k') == 'BinaryOperator' and e.get('op') in ('&', '|', '>>', '<<'):
            a, b = ev(e['l']), ev(e['r'])
            if a is None or b is None:
                return None
            return {'&': a & b, '|': a | b, '>>': a >> b, '<<': a << b}[e['op']]
        return None
    if f[0] == 'cmp':
        a, b = ev(f[2]), ev(f[3])
        if a is None or b is None:
            return None
        return {'==': a == b, '!=': a != b, '<': a < b, '<=': a <= b, '>': a > b, '>=': a >= b}.get(f[1])
    if f[0] == 'or':
        vals = []
        for alt in f[1]:
            vs = [fold_dev(l, value) for l in alt]
            if any(v is None for v in vs):
                return None
            vals.append(all(vs))
        return any(vals)
    return None
