"""Shared voice-bookkeeping rules (C04.R1 = C05.R1): removal of a chip-channel user is followed by the last-user key-off test."""
from ..core import *
from ..logic import *
from ..report import Obl
from .. import build


def users_calls(fn, method):
    """statements calling `<...>.users.<method>(...)`"""
    for b, j, st in fn.cfg.stmts():
        for x in calls_in(st['s']):
            if short(callee_name(x)) == method and x.get('obj') is not None and strip(x['obj']).get('k') == 'MemberExpr' and short(strip(x['obj'])['n']) == 'users':
                yield b, j, st, x


def keyoff_helpers(facts):
    """functions that do the last-user test themselves on every path from their entry (`if(chan.users.empty()) synth.noteOff(c);`
    extracted into a helper): a call of one is a key-off test at the call site"""
    c = getattr(facts, '_keyoff_helpers', None)
    if c is None:
        c = set()
        for g in facts.all_fns():
            if g.tree is None or not g.file.startswith(build.REPO) or '/chips/' in g.file:
                continue
            if not any(short(callee_name(x)) == 'empty' for x in calls_in(g.tree)):
                continue
            t = set(keyoff_tests(g))
            if t and every_path_passes(g, g.cfg.entry, 0, t, []):
                c.add(g.name)
        facts._keyoff_helpers = c
    return c


def keyoff_tests(fn, helpers=()):
    """blocks that evaluate `users.empty()` and whose true edge reaches a `noteOff` call on the synth before anything else leaves
    (or that call a helper which does exactly that)"""
    out = []
    cfg = fn.cfg
    if helpers:
        for b, j, st in cfg.stmts():
            if any(callee_name(x) in helpers for x in calls_in(st['s'])):
                out.append(b)
    for bid, blk in cfg.blocks.items():
        c = blk.get('cond')
        if c is None:
            continue
        c2 = strip(c)
        neg = False
        while c2.get('k') == 'UnaryOperator' and c2['op'] == '!':
            neg = not neg
            c2 = strip(c2['e'])
        if not (short(callee_name(c2)) == 'empty' and c2.get('obj') is not None and mentions(c2['obj'], member_named('users'))):
            continue
        succ = blk['succ']
        if len(succ) != 2 or succ[1 if neg else 0] is None:
            continue
        tgt = succ[1 if neg else 0]
        # the true target (or blocks it dominates before the join) must call OPN2::noteOff
        region = [b for b in cfg.blocks if cfg.block_dominates(tgt, b)]
        has = False
        for rb in region:
            for st in cfg.blocks[rb]['stmts']:
                for x in calls_in(st['s']):
                    if callee_name(x).endswith('OPN2::noteOff') or (short(callee_name(x)) == 'noteOff' and x.get('obj') is not None and 'OPN2' in (x['obj'].get('t', {}).get('s', '') + x['obj'].get('ot', {}).get('s', ''))):
                        has = True
        if has:
            out.append(bid)
    return out


def every_path_passes(fn, start_blk, start_idx, targets, facts_at_start):
    """True when every path from the statement to the function exit passes one of the `targets` blocks, ignoring
    edges that contradict a truth fact known at the start (same single-definition local)"""
    cfg = fn.cfg
    known = {}
    for f in facts_at_start:
        if f[0] == 'truth' and strip(f[1]).get('k') == 'DeclRefExpr':
            known[strip(f[1]).get('id')] = f[2]
    sd = single_defs(fn.d)
    seen = set()
    st = [start_blk]
    first = True
    while st:
        b = st.pop()
        if b in seen and not first:
            continue
        if not first and b in targets:
            continue
        if b == cfg.exit:
            return False
        if not first:
            seen.add(b)
        first = False
        blk = cfg.blocks[b]
        for k, s in enumerate(blk['succ']):
            if s is None:
                continue
            e = cfg.edge_info(b, k)
            if e and e['kind'] == 'branch':
                contradicted = False
                for f in literals(e['cond'], e['pol']):
                    if f[0] == 'truth' and strip(f[1]).get('k') == 'DeclRefExpr':
                        vid = strip(f[1]).get('id')
                        if vid in known and vid in sd and known[vid] != f[2]:
                            contradicted = True
                if contradicted:
                    continue
            if start_blk in targets and b == start_blk and False:
                continue
            st.append(s)
    return True


def callers_of(facts, fn):
    out = []
    for g in facts.all_fns():
        for b, j, st in g.cfg.stmts():
            for x in calls_in(st['s']):
                if callee_name(x) == fn.name:
                    out.append((g, b, j, st))
    return out


def erase_keyoff_obligations(facts, rule):
    obls = []
    n = 0
    helpers = keyoff_helpers(facts)
    for fn in facts.all_fns():
        if not fn.name.startswith('OPNMIDIplay::'):
            continue
        for method in ('erase', 'clear'):
            for b, j, st, call in users_calls(fn, method):
                n += 1
                tests = set(keyoff_tests(fn, helpers))
                gf = guard_facts(fn, b, st)
                ok = bool(tests) and every_path_passes(fn, b, j, tests, gf)
                where = 'in the same function'
                if not ok:
                    # the test may live in the caller (evacuation returns right after moving the user)
                    cs = [c for c in callers_of(facts, fn) if c[0].name.startswith('OPNMIDIplay::')]
                    if cs:
                        ok = True
                        for g, cb, cj, cst in cs:
                            t2 = set(keyoff_tests(g, helpers))
                            if not (t2 and every_path_passes(g, cb, cj, t2, guard_facts(g, cb, cst))):
                                ok = False
                                where = 'caller %s has a path to its exit without the test' % short(g.name)
                        if ok:
                            where = 'in every caller (%s)' % ', '.join(sorted({short(c[0].name) for c in cs}))
                    else:
                        where = 'no key-off test after it'
                obls.append(Obl(rule, fn.name, 'users.%s' % method, st['loc'], 'discharged' if ok else 'finding',
                                why=('followed on every path by `users.empty()` => synth.noteOff, %s' % where) if ok else
                                'a chip-channel user is removed and a path returns without testing for the last user / keying the channel off: %s' % where))
    if n < 3:
        raise build.AnalysisBroken('%s: only %d users.erase sites found' % (rule, n))
    return obls


def key_release_calls(fn, node, upd_off):
    """calls inside `node` that release one key of one MIDI channel: (call, key argument, immediate?)
         noteOff(chan, key[, forceNow]) / realTime_NoteOff(chan, key) / rt_noteOff.. hooks (.., chan, key[, vel])
         noteUpdate(chan, it, Upd_Off) with `it` a local initialised from find_activenote(key): what noteOff(.., true) does itself"""
    inits = {}
    for x in walk(fn.tree):
        if isinstance(x, dict) and x.get('k') == 'DeclStmt':
            for v in x.get('decls', []):
                if v.get('init') is not None:
                    inits[v['id']] = v['init']
    for x in walk(node):
        if not isinstance(x, dict) or not ('callee' in x or 'callee_e' in x):
            continue
        sn = short(callee_name(x))
        args = x.get('a', [])
        hook = x.get('callee_e') is not None and mentions(x['callee_e'], lambda y: y.get('k') == 'MemberExpr' and short(y['n']) in ('rt_noteOff', 'rt_noteOffVel'))
        if (sn in ('noteOff', 'realTime_NoteOff', 'rt_noteOff', 'rt_noteOffVel') or hook) and len(args) >= 2 and not callee_name(x).startswith('OPN2::'):
            forced = (const_of(args[2]) == 1) if (sn == 'noteOff' and len(args) >= 3) else False
            yield x, args[1:], forced
        itarg = strip(args[1]) if len(args) >= 2 else {}
        while itarg.get('k') == 'CXXConstructExpr' and len(itarg.get('a', [])) == 1:      # the iterator is passed by value
            itarg = strip(itarg['a'][0])
        if sn == 'noteUpdate' and len(args) >= 3 and const_of(args[2]) == upd_off and itarg.get('k') == 'DeclRefExpr':
            it0 = inits.get(itarg.get('id'))
            fa = [y for y in calls_in(it0)] if it0 is not None else []
            fa = [y for y in fa if short(callee_name(y)) == 'find_activenote' and y.get('a')]
            if fa:
                yield x, fa[0]['a'][:1], True
