"""C05 — a note sounds exactly while its key, the pedal or sostenuto holds it.

R1  no stuck notes: removal of a chip-channel user always reaches the last-user key-off test (shared with C04.R1).
R2  controller dispatch: CC64/66/120/121/123 reach the required callee with the required constants; pedal threshold is 64.
R3  every function that clears the pedal state of a channel also releases the pedal-held users (sibling agreement).
R4  deferred drum key-off completes: the TickIterators path is gated only by the counters it must be gated by; the implicit
    key-off in note-on is forced.
R5  panic reaches a note-off for every channel and key and then releases every held note.
R6  the hold decision: user removal is control-dependent on "pedal up" and "no sostenuto flag"; the other branch marks the user
    pedal-held and does not key off.
"""
from ..core import *
from ..logic import *
from ..report import Obl, Rule
from .. import build
from .voices import erase_keyoff_obligations, users_calls, key_release_calls

PROP = 'C05'
RULES = [
    Rule('C05.R1', 'removal of a chip-channel user is followed on every path by the last-user key-off test', 3),
    Rule('C05.R2', 'controller dispatch reaches the required release/hold routine with the required constants', 7),
    Rule('C05.R3', 'clearing the pedal state of a channel releases its pedal-held users', 3),
    Rule('C05.R4', 'deferred drum key-off is completed by the tick path and the implicit key-off of note-on is forced', 3),
    Rule('C05.R5', 'panic keys off every key of every channel and then releases all held users', 2),
    Rule('C05.R6', 'note-off removes the user only with the pedal up and no sostenuto flag; otherwise marks it pedal-held', 3),
]
EXPLANATION = ('CFG path rules (post-dominance with contradiction pruning, guard facts from edge-split dominators and enclosing structured conditions) and '
               'constant/callee agreement over OPNMIDIplay::realTime_Controller, noteUpdate, noteOff, TickIterators, panic and the state-reset functions. '
               'Decides the release discipline on every path; does not decide the set equality over histories nor the 30 ms figure.')
ASSUMPTIONS = ['noteUpdateAll visits every active note of the channel (iterator loop)', 'enumerator values are taken from the AST (Upd_*, Sustain_*)']


def flatten(facts_):
    for f in facts_:
        if f[0] == 'or':
            for alt in f[1]:
                yield from flatten(alt)
        elif f[0] in ('truth', 'cmp'):
            yield f


def flatten_all(facts_):
    """all atomic facts, also those inside disjunctions (used only to find which variables a guard talks about)"""
    for f in facts_:
        if f[0] == 'or':
            for alt in f[1]:
                yield from flatten_all(alt)
        elif f[0] in ('truth', 'cmp'):
            yield f


def views(tier):
    return ['V0', 'V1'] if tier == 'quick' else ['V0', 'V1', 'noSEQ']


def enum_consts(fn_list):
    out = {}
    for fn in fn_list:
        for b, ex, loc in fn.cfg.exprs():
            for x in walk(ex):
                if x.get('k') == 'DeclRefExpr' and x.get('enumc') and 'c' in x:
                    out[short(x['n'])] = x['c']
    return out


def case_stmts(fn, value, param_name=None):
    for b, j, st in fn.cfg.stmts():
        gf = with_case_facts(fn, guard_facts(fn, b, st))
        if any(f[0] == 'case' and value in f[2] and strip(f[1]).get('id') == fn.params[1]['id'] for f in gf):       # the controller number parameter
            yield b, j, st, expand_locals(fn, gf)       # `const bool pedalDown = (value >= 64); if(!pedalDown)` reads as `value < 64`


def analyse(facts, tier):
    obls = []
    obls += erase_keyoff_obligations(facts, 'C05.R1')
    rc = deref_view(facts.fn('OPNMIDIplay::realTime_Controller'), ('m_midiChannels', 'm_chipChannels'))
    nu = facts.fn('OPNMIDIplay::noteUpdate')
    ks = facts.fn('OPNMIDIplay::killSustainingNotes')
    en = enum_consts([rc, nu, ks, facts.fn('OPNMIDIplay::realTime_panic'), facts.fn('OPNMIDIplay::noteOff'), facts.fn('OPNMIDIplay::TickIterators')])
    for k in ('Sustain_Pedal', 'Sustain_Sostenuto', 'Sustain_ANY', 'Upd_Off'):
        if k not in en:
            raise build.AnalysisBroken('C05: enumerator %s not found' % k)
    chan_param = rc.params[0]['id']
    val_param = rc.params[2]['id']

    def find_call(cc, callee, pred):
        hits = []
        for b, j, st, gf in case_stmts(rc, cc):
            for x in calls_in(st['s']):
                if short(callee_name(x)) == callee:
                    hits.append((b, j, st, gf, x, pred(x, gf)))
        return hits

    def first_arg_is_channel(x):
        a = x.get('a', [])
        return bool(a) and strip(a[0]).get('id') == chan_param

    def req(cc, what, callee, pred, why_ok):
        hits = find_call(cc, callee, pred)
        good = [h for h in hits if h[5]]
        loc = (good or hits or [(None, None, {'loc': rc.loc})])[0][2]['loc']
        obls.append(Obl('C05.R2', rc.name, 'CC%d: %s' % (cc, what), loc, 'discharged' if good else 'finding',
                        why=why_ok if good else ('case %d does not reach %s with the required arguments/guards' % (cc, callee)) + (' (found %s)' % show(hits[0][4])[:80] if hits else ' (no call)')))

    def val_ge64(gf, pol):
        for f in gf:
            n = cmp_norm(f) if f[0] == 'cmp' else None
            if n and strip(n[1]).get('id') == val_param:
                if pol and n[0] == '>=' and n[2] == 64:
                    return True
                if pol and n[0] == '>' and n[2] == 63:
                    return True
                if not pol and n[0] == '<' and n[2] == 64:
                    return True
                if not pol and n[0] == '<=' and n[2] == 63:
                    return True
        return False

    # CC64: sustain := value >= 64 ; release when up
    thr = False
    thr_loc = rc.loc
    for b, j, st, gf in case_stmts(rc, 64):
        for x in walk(st['s']):
            ap = assign_parts(x)
            if ap and strip(ap[0]).get('k') == 'MemberExpr' and short(strip(ap[0])['n']) == 'sustain':
                r = strip(subst(strip(ap[1]), single_defs(rc.d)))
                if r.get('k') == 'BinaryOperator' and ((r['op'] == '>=' and const_of(r['r']) == 64) or (r['op'] == '>' and const_of(r['r']) == 63)) and strip(r['l']).get('id') == val_param:
                    thr = True
                    thr_loc = st['loc']
    obls.append(Obl('C05.R2', rc.name, 'CC64: pedal is down for values >= 64', thr_loc, 'discharged' if thr else 'finding',
                    why='sustain = (value >= 64)' if thr else 'the pedal state is not derived from value >= 64'))
    req(64, 'release pedal-held users when the pedal goes up', 'killSustainingNotes',
        lambda x, gf: first_arg_is_channel(x) and const_of(x['a'][2]) == en['Sustain_Pedal'] and const_of(x['a'][1]) == -1 and
        any((f[0] == 'truth' and not f[2] and mentions(f[1], member_named('sustain'))) for f in gf) or (first_arg_is_channel(x) and const_of(x['a'][2]) == en['Sustain_Pedal'] and val_ge64(gf, False)),
        'killSustainingNotes(channel, -1, Sustain_Pedal) under !sustain')
    req(66, 'mark sounding keys when pressed', 'markSostenutoNotes', lambda x, gf: first_arg_is_channel(x) and val_ge64(gf, True), 'markSostenutoNotes(channel) under value >= 64')
    req(66, 'release sostenuto-held users when released', 'killSustainingNotes',
        lambda x, gf: first_arg_is_channel(x) and const_of(x['a'][2]) == en['Sustain_Sostenuto'] and const_of(x['a'][1]) == -1 and val_ge64(gf, False),
        'killSustainingNotes(channel, -1, Sustain_Sostenuto) under value < 64')
    req(120, 'off + mute every note of the channel', 'noteUpdateAll',
        lambda x, gf: first_arg_is_channel(x) and const_of(x['a'][1]) is not None and (const_of(x['a'][1]) & en['Upd_Off']) and const_of(x['a'][1]) == en.get('Upd_OffMute', -1),
        'noteUpdateAll(channel, Upd_OffMute)')
    req(123, 'note-off every note of the channel', 'noteUpdateAll', lambda x, gf: first_arg_is_channel(x) and const_of(x['a'][1]) == en['Upd_Off'], 'noteUpdateAll(channel, Upd_Off)')
    req(121, 'reset controllers', 'resetAllControllers121', lambda x, gf: x.get('obj') is not None and mentions(x['obj'], lambda y: y.get('id') == chan_param), 'resetAllControllers121() on the addressed channel')
    req(121, 'release every held user of the channel', 'killSustainingNotes',
        lambda x, gf: first_arg_is_channel(x) and const_of(x['a'][2]) == en['Sustain_ANY'] and const_of(x['a'][1]) == -1, 'killSustainingNotes(channel, -1, Sustain_ANY)')

    # killSustainingNotes itself: clears exactly the requested bits, erases only clean users, matches channel or all
    ok_mask = ok_erase = ok_keydown = ok_filter = False
    for b, j, st in ks.cfg.stmts():
        for x in walk(st['s']):
            ap = assign_parts(x)
            if ap and ap[2] == '&=' and mentions(ap[0], member_named('sustained')):
                r = strip(subst(strip(ap[1]), single_defs(ks.d)))       # the mask may have been named: `const uint32_t keepMask = ~sustain_type;`
                if r.get('k') == 'UnaryOperator' and r['op'] == '~' and strip(r['e']).get('parm'):
                    ok_mask = True
                # the hold bits of OTHER MIDI channels are not touched: the store sits under `midCh < 0 || loc.MidCh == midCh`
                chan_param = ks.params[0]['id']
                for f in flatten_all(guard_facts(ks, b, st)):
                    body = f[1] if f[0] == 'truth' else [f[2], f[3]]
                    if mentions(body, member_named('MidCh')) and mentions(body, lambda y: y.get('k') == 'DeclRefExpr' and y.get('id') == chan_param):
                        ok_filter = True
        for b2, j2, st2, call in users_calls(ks, 'erase'):
            gf = guard_facts(ks, b2, st2)
            if any(f[0] == 'cmp' and f[1] == '==' and mentions(f[2], member_named('sustained')) and const_of(f[3]) == 0 for f in gf):
                ok_erase = True
            # sostenuto marks notes whose keys are still down: releasing a hold must not remove the user of a key that is down
            # (the note is still listed in activenotes with this chip channel)
            if any(mentions(f[1] if f[0] == 'truth' else [f[2], f[3]], lambda y: short(callee_name(y)) == 'phys_find') for f in flatten(guard_facts(ks, b2, st2, sd=single_defs(ks.d)))):
                ok_keydown = True
    obls.append(Obl('C05.R2', ks.name, 'hold bits are cleared only for the addressed MIDI channel', ks.loc, 'discharged' if ok_filter else 'finding',
                    why='sustained &= ~type under (midCh < 0 || loc.MidCh == midCh)' if ok_filter else
                    'the hold bits are cleared before the MIDI-channel filter: lifting the pedal of one channel un-holds the held notes of every other channel without releasing them'))
    obls.append(Obl('C05.R2', ks.name, 'a released hold never removes the user of a key that is still down', ks.loc, 'discharged' if ok_keydown else 'finding',
                    why='erase guarded by "no active note owns this chip channel" (find_activenote + phys_find on the chip channel)' if ok_keydown else
                    'the removal of a user whose hold is released is not guarded by "an active note still owns THIS chip channel" (find_activenote + phys_find): either a key that is still down loses its chip channel (sostenuto marks key-down notes), or a stale user of a re-struck key is kept for ever'))
    obls.append(Obl('C05.R2', ks.name, 'clears the requested hold bits, erases only clean users', ks.loc, 'discharged' if (ok_mask and ok_erase) else 'finding',
                    why='sustained &= ~type; erase only when sustained == Sustain_None' if (ok_mask and ok_erase) else 'hold-bit clearing / erase condition not found'))

    # ---- R3
    n3 = 0
    for fn in facts.all_fns():
        if not fn.name.startswith('OPNMIDIplay::') or fn.d.get('ctor') or '::MIDIchannel::' in fn.name:
            continue
        clears = []
        for b, j, st in fn.cfg.stmts():
            for x in walk(st['s']):
                ap = assign_parts(x)
                if ap and strip(ap[0]).get('k') == 'MemberExpr' and short(strip(ap[0])['n']) == 'sustain' and 'MIDIchannel' in strip(ap[0])['n']:
                    clears.append((b, j, st, 'store sustain', strip(ap[1])))
                if short(callee_name(x)) in ('resetAllControllers', 'resetAllControllers121') and 'MIDIchannel' in callee_name(x):
                    clears.append((b, j, st, 'call ' + short(callee_name(x)), None))
        for b, j, st, what, stored in clears:
            n3 += 1
            rel = []
            for b2, j2, st2 in fn.cfg.stmts():
                for x in calls_in(st2['s']):
                    if short(callee_name(x)) in ('killSustainingNotes', 'realTime_panic') and fn.cfg.stmt_before((b, j), (b2, j2)):
                        gf = guard_facts(fn, b2, st2, loops=False)
                        extra = [f for f in gf if fact_str(f) not in {fact_str(g) for g in guard_facts(fn, b, st, loops=False)}]
                        # allowed extra guard: the pedal is up (the stored value itself)
                        def pedal_state(f):
                            if f[0] != 'truth':
                                return False
                            if mentions(f[1], member_named('sustain')):
                                return True
                            # the local whose value is the one stored into the pedal flag
                            return stored is not None and stored.get('k') == 'DeclRefExpr' and strip(f[1]).get('k') == 'DeclRefExpr' and strip(f[1]).get('id') == stored.get('id')
                        if all(pedal_state(f) for f in extra):
                            rel.append(x)
            ok = bool(rel)
            obls.append(Obl('C05.R3', fn.name, what, st['loc'], 'discharged' if ok else 'finding',
                            why='followed by %s' % short(callee_name(rel[0])) if ok else
                            'the pedal state of a channel is cleared but users held by the pedal are never released: they keep sounding with nothing left to end them'))
    if n3 < 3:
        raise build.AnalysisBroken('C05.R3: only %d pedal-clearing sites found' % n3)
    # R3b: the callees that R3 (and the CC121 dispatch of R2) rely on to put the pedal up really store sustain = false on every path
    def clears_sustain(fn, depth=0):
        cfg = fn.cfg
        pd = cfg.pdom().get(('b', cfg.entry)) or ()
        for b, j, st in cfg.stmts():
            if ('b', b) not in pd and b != cfg.entry:
                continue
            for x in walk(st['s']):
                ap = assign_parts(x)
                if ap and strip(ap[0]).get('k') == 'MemberExpr' and short(strip(ap[0])['n']) == 'sustain' and const_of(ap[1]) == 0:
                    return True
                if depth < 2 and short(callee_name(x)) in ('resetAllControllers121',) and 'MIDIchannel' in callee_name(x):
                    cal = facts.fns.get(callee_name(x))
                    if cal and cal[0].name != fn.name and clears_sustain(cal[0], depth + 1):
                        return True
        return False
    nb = 0
    for nm in ('OPNMIDIplay::MIDIchannel::resetAllControllers121', 'OPNMIDIplay::MIDIchannel::resetAllControllers'):
        fl = facts.fns.get(nm)
        if not fl:
            continue
        nb += 1
        ok = clears_sustain(fl[0])
        obls.append(Obl('C05.R3', nm, 'puts the sustain pedal up', fl[0].loc, 'discharged' if ok else 'finding',
                        why='stores sustain = false on every path' if ok else
                        'the reset releases the held notes but leaves the pedal flag set: every later note-off on the channel becomes a pedal-held note that nothing ends'))
    if nb < 2:
        raise build.AnalysisBroken('C05.R3: MIDIchannel::resetAllControllers / resetAllControllers121 not found')

    # ---- R4
    no = facts.fn('OPNMIDIplay::noteOff')
    ti = facts.fn('OPNMIDIplay::TickIterators')
    sets = [(b, j, st) for b, j, st in no.cfg.stmts() for x in walk(st['s']) if assign_parts(x) and mentions(assign_parts(x)[0], member_named('isOnExtendedLifeTime')) and const_of(assign_parts(x)[1]) == 1]
    obls.append(Obl('C05.R4', no.name, 'defers key-off of a short drum note', (sets or [(0, 0, {'loc': no.loc})])[0][2]['loc'], 'discharged' if sets else 'finding',
                    why='isOnExtendedLifeTime = true when ttl > 0 and not forced' if sets else 'deferral site not found'))
    comp = None
    for b, j, st in ti.cfg.stmts():
        for x in calls_in(st['s']):
            if short(callee_name(x)) == 'noteUpdate' and len(x.get('a', [])) >= 3 and const_of(x['a'][2]) == en['Upd_Off']:
                gf = guard_facts(ti, b, st, loops=False)
                comp = (st, gf)
    if comp:
        st, gf = comp
        allowed = ('ttl', 'isOnExtendedLifeTime', 'extended_note_count', 'is_end', 'size')
        extra = [fact_str(f) for f in gf if not any(a in fact_str(f) for a in allowed)]
        need = any('isOnExtendedLifeTime' in fact_str(f) for f in gf) and any('ttl' in fact_str(f) for f in gf)
        ok = need and not extra
        obls.append(Obl('C05.R4', ti.name, 'completes the deferred key-off', st['loc'], 'discharged' if ok else 'finding',
                        why='noteUpdate(.., Upd_Off) when ttl crosses zero with the flag set; gated only by the extended-lifetime bookkeeping' if ok else
                        'deferred key-off is gated by something else (%s) or misses its conditions' % extra, detail={'guards': [fact_str(f) for f in gf]}))
    else:
        obls.append(Obl('C05.R4', ti.name, 'completes the deferred key-off', ti.loc, 'finding', why='no noteUpdate(.., Upd_Off) in the tick path'))
    non = facts.fn('OPNMIDIplay::realTime_NoteOn')
    vel = non.params[2]['id']
    forced = None
    for b, j, st in non.cfg.stmts():
        for x in calls_in(st['s']):
            if short(callee_name(x)) == 'noteOff' and len(x.get('a', [])) >= 3:
                a = strip(x['a'][2])
                c = const_of(x['a'][2])
                ok = (c == 1) or (a.get('k') == 'BinaryOperator' and ((a['op'] == '!=' and const_of(a['r']) == 0) or (a['op'] == '>' and const_of(a['r']) == 0)) and strip(a['l']).get('id') == vel)
                forced = (st, ok, show(x))
    if forced:
        obls.append(Obl('C05.R4', non.name, 'implicit key-off before re-key-on is forced', forced[0]['loc'], 'discharged' if forced[1] else 'finding',
                        why='noteOff(channel, note, velocity != 0)' if forced[1] else 'the key-off that precedes a re-strike may be deferred (%s): the old voice is then overwritten while still keyed on' % forced[2]))
    else:
        obls.append(Obl('C05.R4', non.name, 'implicit key-off before re-key-on is forced', non.loc, 'finding', why='no noteOff call before the key-on'))

    # the countdown of a young drum note: the test that skips an expired note and the test that fires the deferred key-off after the
    # decrement must be the same predicate on ttl — a value that is skipped but never fired is a note that is never keyed off
    skip = fire = None
    # the countdown local: initialised from the note's `ttl` member
    ttl_ids = {v['id'] for b0, j0, st0 in ti.cfg.stmts() if st0['s'].get('k') == 'DeclStmt' for v in st0['s']['decls']
               if v.get('init') is not None and mentions(v['init'], member_named('ttl'))}
    for bid, blk in ti.cfg.blocks.items():
        c = blk.get('cond')
        if c is None or blk.get('term') != 'IfStmt':
            continue
        for f in literals(c, True):
            nrm = None
            if f[0] == 'cmp' and strip(f[2]).get('k') == 'DeclRefExpr':
                cv = const_of(f[3])
                if cv is None and isinstance(strip(f[3]), dict) and 'fc' in strip(f[3]):
                    cv = strip(f[3])['fc']
                if cv is not None:
                    nrm = (f[1], f[2], cv)
            if not (nrm and strip(nrm[1]).get('k') == 'DeclRefExpr' and strip(nrm[1]).get('id') in ttl_ids):
                continue
            tb = ti.cfg.blocks[blk['succ'][0]]
            cont = tb.get('term') == 'ContinueStmt' or any(st['s'].get('k') == 'ContinueStmt' for st in tb['stmts'])
            if cont:
                skip = (nrm[0], nrm[2], blk.get('cloc'))
            else:
                fire = (nrm[0], nrm[2], blk.get('cloc'))
    if skip is None or fire is None:
        raise build.AnalysisBroken('C05.R4: the two ttl tests of TickIterators were not recognised')
    okt = skip[:2] == fire[:2]
    obls.append(Obl('C05.R4', ti.name, 'expiry test matches the skip test', fire[2], 'discharged' if okt else 'finding',
                    why='both test ttl %s %s' % skip[:2] if okt else
                    'a note is skipped as expired when ttl %s %s but its deferred key-off fires only when ttl %s %s: a countdown that lands exactly on the boundary is never keyed off' % (skip[0], skip[1], fire[0], fire[1])))

    # ---- R5
    rp = facts.fn('OPNMIDIplay::realTime_panic')
    pn = facts.fn('OPNMIDIplay::panic')
    order = []
    for b, j, st in rp.cfg.stmts():
        for x in calls_in(st['s']):
            if short(callee_name(x)) == 'panic':
                order.append(('panic', b, j))
            if short(callee_name(x)) == 'killSustainingNotes' and const_of(x['a'][0]) == -1 and const_of(x['a'][1]) == -1 and const_of(x['a'][2]) == en['Sustain_ANY']:
                order.append(('kill', b, j))
    names = [o[0] for o in order]
    ok = 'panic' in names and 'kill' in names and rp.cfg.stmt_before(order[names.index('panic')][1:], order[names.index('kill')][1:]) and len(rp.cfg.reachable_blocks()) <= 4
    obls.append(Obl('C05.R5', rp.name, 'panic then release all holds', rp.loc, 'discharged' if ok else 'finding',
                    why='panic(); killSustainingNotes(-1, -1, Sustain_ANY) unconditionally, in this order' if ok else 'panic does not key off every note first and then release all held users (found %s)' % names))
    # panic(): loops over all channels (bound: size of the channel table) and keys 0..127
    loops = []
    def rec(t, depth=0):
        if isinstance(t, dict):
            if t.get('k') == 'ForStmt':
                loops.append(t)
            for k2 in ('body', 'then', 'else', 'sub'):
                v = t.get(k2)
                if isinstance(v, list):
                    for y in v:
                        rec(y)
                elif isinstance(v, dict):
                    rec(v)
    rec(pn.tree)
    chan_loop = any(mentions(l['cond'], lambda y: short(callee_name(y)) == 'size' and mentions(y.get('obj'), member_named('m_midiChannels'))) for l in loops if l.get('cond'))
    key_loop = any(strip(l['cond']).get('k') == 'BinaryOperator' and strip(l['cond'])['op'] == '<' and const_of(strip(l['cond'])['r']) == 128 for l in loops if l.get('cond'))
    releases = list(key_release_calls(pn, pn.tree, en['Upd_Off']))
    calls_off = bool(releases)
    # loop variable of the channel loop must be as wide as the bound
    wide = True
    for l in loops:
        if l.get('cond') and mentions(l['cond'], lambda y: short(callee_name(y)) == 'size'):
            lv = strip(strip(l['cond'])['l'])
            if lv.get('t', {}).get('w', 64) < 32:
                wide = False
    ok = chan_loop and key_loop and calls_off and wide
    obls.append(Obl('C05.R5', pn.name, 'note-off for every channel and key', pn.loc, 'discharged' if ok else 'finding',
                    why='for all channels < size(), keys 0..127: noteOff' if ok else 'panic() does not cover every channel/key (channel loop=%s, key loop=%s, note-off=%s, wide index=%s)' % (chan_loop, key_loop, calls_off, wide)))

    # panic's note-off must take effect now: the deferred key-off of a short drum note (noteOff without forceNow) leaves the note
    # active after the panic, and every caller that rebuilds the chip-channel table afterwards (C04.R6) relies on no note surviving
    forced = [1 if f_ else 0 for x, keyargs, f_ in releases]
    okf = bool(forced) and all(v == 1 for v in forced)
    obls.append(Obl('C05.R5', pn.name, 'note-off is immediate', pn.loc, 'discharged' if okf else 'finding',
                    why='noteOff(channel, key, forceNow = true)' if okf else
                    'panic only defers the key-off of drum notes younger than the minimal drum time: they stay active after the panic, and a chip-count / bank / chip-type change then rebuilds the chip channels under them'))

    # every loop that releases "all keys" covers the keys 0..127: a for loop whose induction variable is the key argument of a
    # note-off call starts at 0 and runs while key < 128
    from .. import e2prog
    n_all = 0
    for fn in facts.all_fns():
        if fn.relfile() not in e2prog.CORE_FILES or fn.tree is None:
            continue
        loops = []
        def rec_l(t):
            if isinstance(t, dict):
                if t.get('k') == 'ForStmt' and t.get('cond') is not None:
                    loops.append(t)
                for k2 in ('body', 'then', 'else', 'sub', 'init'):
                    v = t.get(k2)
                    if isinstance(v, (dict, list)):
                        rec_l(v)
            elif isinstance(t, list):
                for y in t:
                    rec_l(y)
        rec_l(fn.tree)
        for l in loops:
            c = strip(l['cond'])
            if c.get('k') != 'BinaryOperator' or strip(c['l']).get('k') != 'DeclRefExpr':
                continue
            iv = strip(c['l'])
            used = False
            for x, keyargs, forced_ in key_release_calls(fn, l.get('body'), en['Upd_Off']):
                # (channel, key[, ...]) or (userdata, channel, key[, velocity]): the key is never the first argument
                if any(strip(a).get('k') == 'DeclRefExpr' and strip(a).get('id') == iv.get('id') for a in keyargs):
                    used = True
            if not used:
                continue
            n_all += 1
            bound = const_of(c['r'])
            okb = (c['op'] == '<' and bound == 128) or (c['op'] == '<=' and bound == 127)
            obls.append(Obl('C05.R5', fn.name, 'all-keys loop %s' % show(l['cond']), '%s:%s' % (fn.file, l.get('ln')), 'discharged' if okb else 'finding',
                            why='keys 0..127' if okb else 'the loop that releases every key of the channel stops before key 127: a sounding note 127 is not released'))
    if n_all < (1 if facts.view == 'noSEQ' else 2):
        raise build.AnalysisBroken('C05.R5: only %d all-keys release loops found (panic, setChannelEnabled)' % n_all)
    # note-on and note-off normalise the key number alike (a key that note-on maps to 127 must be found by note-off)
    def key_clamp(fn_):
        kp = fn_.params[1]
        for b, j, st in fn_.cfg.stmts():
            for x in walk(st['s']):
                ap = assign_parts(x)
                if ap and strip(ap[0]).get('id') == kp['id'] and const_of(ap[1]) is not None:
                    gf = guard_facts(fn_, b, st)
                    for f in gf:
                        nrm = cmp_norm(f) if f[0] == 'cmp' else None
                        if nrm and strip(nrm[1]).get('id') == kp['id']:
                            return (nrm[0], nrm[2], const_of(ap[1]))
        return None
    on_ = key_clamp(facts.fn('OPNMIDIplay::realTime_NoteOn'))
    off_ = key_clamp(facts.fn('OPNMIDIplay::realTime_NoteOff'))
    okn = on_ == off_
    obls.append(Obl('C05.R2', 'OPNMIDIplay::realTime_NoteOff', 'key normalised as in note-on', facts.fn('OPNMIDIplay::realTime_NoteOff').loc, 'discharged' if okn else 'finding',
                    why='both: %s' % (on_,) if okn else 'note-on maps the key with %s, note-off with %s: a note started with an out-of-range key number cannot be ended with the same number' % (on_, off_)))

    # ---- R6
    sd = single_defs(nu.d)
    er = list(users_calls(nu, 'erase'))
    ok_e = False
    for b, j, st, call in er:
        gf = guard_facts(nu, b, st, sd)
        up = any(f[0] == 'cmp' and f[1] == '==' and mentions(f[2], member_named('sustain')) and const_of(f[3]) == 0 for f in gf)
        nosos = any(f[0] == 'cmp' and f[1] == '==' and const_of(f[3]) == 0 and mentions(f[2], lambda y: y.get('k') == 'BinaryOperator' and y['op'] == '&' and const_of(y['r']) == en['Sustain_Sostenuto'] and mentions(y['l'], member_named('sustained'))) for f in gf)
        off = any(f[0] == 'truth' and f[2] and mentions(f[1], lambda y: y.get('k') == 'BinaryOperator' and y['op'] == '&' and const_of(y['r']) == en['Upd_Off']) for f in gf)
        ok_e = up and nosos and off
        obls.append(Obl('C05.R6', nu.name, 'users.erase (note-off branch)', st['loc'], 'discharged' if ok_e else 'finding',
                        why='control-dependent on Upd_Off, pedal up (sustain == 0) and no sostenuto flag on the user' if ok_e else
                        'user removal is not guarded by all of: Upd_Off=%s, pedal up=%s, no sostenuto flag=%s' % (off, up, nosos)))
    if not er:
        raise build.AnalysisBroken('C05.R6: users.erase not found in noteUpdate')
    hold = None
    for b, j, st in nu.cfg.stmts():
        for x in walk(st['s']):
            ap = assign_parts(x)
            if ap and ap[2] == '|=' and mentions(ap[0], member_named('sustained')) and const_of(ap[1]) == en['Sustain_Pedal']:
                gf = guard_facts(nu, b, st, sd)
                down = any(f[0] == 'cmp' and f[1] == '!=' and mentions(f[2], member_named('sustain')) and const_of(f[3]) == 0 for f in gf)
                hold = (st, down, b)
    if hold:
        st, down, hb = hold
        # no key-off / erase in the region dominated by the pedal-down branch
        bad = False
        for b, j, st2 in nu.cfg.stmts():
            if any(f[0] == 'cmp' and f[1] == '!=' and mentions(f[2], member_named('sustain')) and const_of(f[3]) == 0 for f in guard_facts(nu, b, st2, sd)):
                for x in calls_in(st2['s']):
                    if callee_name(x).endswith('OPN2::noteOff') or (short(callee_name(x)) == 'erase' and mentions(x.get('obj'), member_named('users'))):
                        bad = True
        ok = down and not bad
        obls.append(Obl('C05.R6', nu.name, 'pedal down: mark user pedal-held', st['loc'], 'discharged' if ok else 'finding',
                        why='sustained |= Sustain_Pedal under sustain != 0, without erase or key-off' if ok else 'pedal-down branch is wrong (guard=%s, keys off or erases=%s)' % (down, bad)))
    else:
        obls.append(Obl('C05.R6', nu.name, 'pedal down: mark user pedal-held', nu.loc, 'finding', why='no `sustained |= Sustain_Pedal` in the note-off branch'))
    # sostenuto marks only users whose key is down (not already held)
    ms = facts.fn('OPNMIDIplay::markSostenutoNotes')
    okm = False
    locm = ms.loc
    for b, j, st in ms.cfg.stmts():
        for x in walk(st['s']):
            ap = assign_parts(x)
            if ap and ap[2] == '|=' and mentions(ap[0], member_named('sustained')) and const_of(ap[1]) == en['Sustain_Sostenuto']:
                gf = guard_facts(ms, b, st)
                locm = st['loc']
                okm = any(f[0] == 'cmp' and f[1] == '==' and strip(f[2]).get('k') == 'MemberExpr' and short(strip(f[2])['n']) == 'sustained' and const_of(f[3]) == 0 for f in gf) and \
                      any(f[0] == 'cmp' and f[1] == '==' and (mentions(f[2], member_named('MidCh')) or mentions(f[3], member_named('MidCh'))) for f in gf)
    obls.append(Obl('C05.R6', ms.name, 'sostenuto captures only keys that are down', locm, 'discharged' if okm else 'finding',
                    why='marks users of the channel whose sustained == Sustain_None' if okm else 'sostenuto also captures users that are only held by the pedal (or of other channels)'))
    return obls
