"""C14 — instances are deterministic and isolated, also across threads.

R1  no shared mutable state: every (mutable global / function static / class static, writer function reachable from
    an exported opn2_* function) pair is an obligation; discharged only for C++11 guarded static initialisation or
    when no reachable writer exists.
R2  no indeterminate reads: every scalar member of the instance-state classes is initialised by every user constructor
    (init list, constructor body, or a member function the body calls on `this`).
"""
import collections, re
from ..core import *
from ..effects import *
from ..report import Obl, Rule
from .. import build

PROP = 'C14'
RULES = [
    Rule('C14.R1', 'no process-wide mutable object is written on a path reachable from the C API (except C++11 guarded static initialisation)', 60),
    Rule('C14.R2', 'every scalar member of an instance-state class is initialised by each of its constructors', 80),
    Rule('C14.R3', 'a scratch member of a bundled C++ core that no constructor initialises is stored back into the persistent chip state only after the function has written it', 1),
]
EXPLANATION = ('Whole-program LLVM IR analysis (all library units compiled to bitcode with the build\'s flags and linked): def-use chains are '
               'followed from every mutable global (GEP, casts, phi/select, argument passing into callees) to stores, mem-intrinsics and escaping '
               'uses; writers are intersected with the functions reachable from the 91 exported opn2_* entry points over a call graph whose '
               'indirect calls resolve to all address-taken functions of matching signature. A backward slice of each stored value classifies the '
               'write as instance-dependent or table-building. AST rule R2 checks constructor initialisation of scalar members. '
               'Decides absence of shared mutable state (a necessary condition of isolation and race freedom); does not decide bit-exact float reproducibility.')
ASSUMPTIONS = ['indirect calls are resolved by signature modulo pointer types (over-approximation)',
               'a global whose address escapes into instance memory is listed as assumed: writes through the escaped pointer are not tracked',
               'libstdc++/libc internals are outside the analysed module']

# escapes of a mutable global's address that were read and found harmless: (function, global) -> reason.  Anything else is a finding.
REVIEWED_ESCAPES = {
    ('SLOT_SET', 'NULL_RATE'): 'GENS: slot rate pointers select a row of a rate table that is only read afterwards',
    ('PSG_setVolumeMode', 'voltbl'): 'emu2149: the PSG keeps a pointer to one of two volume tables and only reads through it',
    ('Prepare', 'pmtable'): 'fmgen: channels keep a read pointer into the LFO phase-modulation table',
    ('Channel4', 'pmtable'): 'fmgen: as above (constructor)',
    ('Prepare', 'amtable'): 'fmgen: operators keep a read pointer into the LFO amplitude-modulation table',
    ('Operator', 'amtable'): 'fmgen: as above (constructor)',
    ('SetReg', 'enveloptable'): 'fmgen PSG: the envelope pointer selects a row that is only read',
    ('opn2_linkedVersion', 'opn2_version'): 'the version struct is returned by const pointer',
    ('realTime_NoteOn', 'm_emptyInstrument'): 'notes of blank instruments point at the shared empty instrument; OpnInstMeta is only read through NoteInfo::ains',
}

_RNG = ('finding', 'the C library\'s pseudo-random generator is one hidden process-wide state: the output of this instance depends on every other caller of rand() and is not reproducible from the instance\'s own history')
_BUF = ('finding', 'returns / uses a static buffer of the C library that every thread shares')
HIDDEN_STATE_LIBC = {
    'rand': _RNG, 'srand': _RNG, 'random': _RNG, 'srandom': _RNG, 'drand48': _RNG, 'lrand48': _RNG, 'mrand48': _RNG, 'erand48': _RNG,
    'strtok': _BUF, 'localtime': _BUF, 'gmtime': _BUF, 'asctime': _BUF, 'ctime': _BUF, 'tmpnam': _BUF, 'setlocale': _BUF,
    'strerror': ('assumed', 'glibc returns pointers to immutable message strings for the error numbers that can occur here (file open failure); only an unknown error number would use the shared buffer'),
}

WRITE_KINDS = ('store', 'memintrinsic-dest', 'atomic', 'arg-indirect-call')


def views(tier):
    return ['V0'] if tier == 'quick' else ['V0', 'noVGM', 'noNUKED', 'noMAME', 'noGENS', 'noYMFM', 'noNP2', 'noMAME2608']


def relsrc(p):
    return p.split('/src/')[-1] if '/src/' in p else p


def analyse(facts, tier):
    ir = facts.ir
    roots = ir.roots()
    if len(roots) < 80:
        raise build.AnalysisBroken('C14: only %d exported roots in the linked module' % len(roots))
    par = ir.reach(roots)
    obls = []
    root_ids = set(roots) if roots and not isinstance(next(iter(roots)), dict) else {r['id'] for r in roots}
    callers_of = collections.defaultdict(set)
    for f_ in ir.fns:
        for cid in f_.get('callees', []):
            callers_of[cid].add(f_['id'])
    guard_names = {g['name'] for g in ir.globals if g['name'].startswith('_ZGV')}
    n_mut = 0
    for g in ir.globals:
        if g['const'] or g['name'].startswith('_ZGV'):
            continue
        if g['name'].startswith(('_ZTV', '_ZTI', '_ZTS', '.str', '__const', '__PRETTY_FUNCTION__', '_ZStL8__ioinit')) or g['dname'].startswith(('vtable', 'typeinfo', 'std::__ioinit')):
            continue
        n_mut += 1
        guarded = ('_ZGV' + g['name'][2:]) in guard_names
        gname = '%s:%s' % (relsrc(g.get('file', '?')), g.get('srcname') or g['dname'])
        if g.get('scope_fn'):
            gname += '@' + g['scope_fn']
        by_writer = collections.OrderedDict()
        escapes = collections.OrderedDict()
        for s in g.get('sites', []):
            f = ir.fns[s['fn']]
            # a write made by a file-local helper of exported API functions (all its callers are roots of the same file) is a write
            # of those API functions: the site keeps its identity when the statement moves into such a helper
            cl = callers_of.get(f['id'], set())
            if not f.get('external') and cl and all(c_ in root_ids and ir.fns[c_].get('file') == f.get('file') for c_ in cl):
                for c_ in sorted(cl):
                    if c_ in par:
                        s2 = dict(s, fn=c_)
                        if s['kind'] in WRITE_KINDS or (s['kind'].startswith('arg-extern:') and not s['kind'].startswith('arg-extern:_ZNK')):
                            by_writer.setdefault(ir.fns[c_]['dname'], []).append(s2)
                continue
            fname = f['name']
            if fname.startswith(('__cxx_global_var_init', '_GLOBAL__sub_I')):
                continue
            if s['fn'] not in par:
                continue
            k = s['kind']
            if k in WRITE_KINDS or (k.startswith('arg-extern:') and not k.startswith('arg-extern:_ZNK')):
                by_writer.setdefault(f['dname'], []).append(s)
            elif k in ('addr-stored', 'addr-returned', 'ptrtoint'):
                escapes.setdefault(f['dname'], []).append(s)
        if not by_writer and not escapes:
            obls.append(Obl('C14.R1', '-', 'global ' + gname, g.get('file', '?') + ':%s' % g.get('line', 0), 'discharged',
                            why='no store reachable from the C API (written at static initialisation only or never)', nontrivial=False))
            continue
        for w, ss in by_writer.items():
            wshort = re.sub(r'\(.*', '', w)
            if guarded and g.get('scope_fn') and g['scope_fn'] in w:
                if any(s.get('dep_arg') for s in ss):
                    # thread-safe, but the value is computed from the arguments / the instance of the FIRST call and then serves all
                    obls.append(Obl('C14.R1', wshort, 'write ' + gname, ss[0]['loc'], 'finding',
                                    why='function-static initialised once from a value that depends on the calling instance: the first instance created in the process fixes it for every later instance (cross-instance interference without any data race)',
                                    detail={'class': 'first-instance-frozen', 'bytes': g['bytes']}))
                    continue
                obls.append(Obl('C14.R1', wshort, 'write ' + gname, ss[0]['loc'], 'discharged',
                                why='C++11 guarded function-static initialisation from instance-independent values (thread-safe, executed once)'))
                continue
            dep = any(s.get('dep_arg') for s in ss)
            cls = 'instance-dependent' if dep else 'lazy-table'
            if all(s['kind'].startswith('arg-extern') for s in ss):
                cls = 'shared-object'      # modified through a library call (e.g. std::string assignment); value not sliced
                dep = True
            path = ir.path(par, ss[0]['fn'])
            obls.append(Obl('C14.R1', wshort, 'write ' + gname, ss[0]['loc'], 'finding',
                            why='%s write to a process-wide object reachable from the C API (%d site(s); %s)' % (
                                cls, len(ss), 'stored value depends on the calling instance: cross-instance interference' if dep else
                                'value does not depend on the instance, but the unsynchronised write races with other threads creating/using instances'),
                            detail={'class': cls, 'bytes': g['bytes'], 'kinds': sorted({s['kind'] for s in ss}), 'path': path[-6:]}))
        for w, ss in escapes.items():
            if w in by_writer:
                continue
            wshort = re.sub(r'\(.*', '', w)
            reason = REVIEWED_ESCAPES.get((wshort.split('::')[-1], (g.get('srcname') or g['dname']).split('::')[-1]))
            if reason:
                obls.append(Obl('C14.R1', wshort, 'escape ' + gname, ss[0]['loc'], 'assumed',
                                why='address of the object is stored/returned; reviewed: ' + reason, nontrivial=False))
            else:
                obls.append(Obl('C14.R1', wshort, 'escape ' + gname, ss[0]['loc'], 'finding',
                                why='the address of a non-const process-wide object is stored into memory or handed on (%d site(s)): code that receives the pointer writes to storage shared by every instance and thread (a `static` scratch buffer races as soon as two instances render in parallel)' % len(ss),
                                detail={'bytes': g['bytes'], 'kinds': sorted({s_['kind'] for s_ in ss})}))
    if n_mut < 40:
        raise build.AnalysisBroken('C14: only %d mutable globals seen in the module' % n_mut)
    # hidden process-wide state of the C library: the pseudo-random generator, strtok's cursor, the static buffers of the time functions...
    # A call reachable from the C API makes the output depend on what other instances (or the host program) did with the same state.
    by_id = {f['id']: f for f in ir.fns}
    n_hidden = 0
    for f in ir.fns:
        if f['id'] not in par or not f['defined']:
            continue
        for cid in f.get('callees', []):
            c = by_id.get(cid)
            if c is None or c['defined']:
                continue
            nm = c['name']
            if nm in HIDDEN_STATE_LIBC:
                n_hidden += 1
                st_, why = HIDDEN_STATE_LIBC[nm]
                obls.append(Obl('C14.R1', f['dname'].split('(')[0], 'call ' + nm, '%s:%s' % (f.get('file', '?'), f.get('line', 0)), st_,
                                why=why + (' (%s)' % ' <- '.join(ir.path(par, f['id'])[-4:]) if st_ == 'finding' else ''), nontrivial=(st_ == 'finding')))

    # ---- R2 constructor initialisation
    obls += r2(facts)
    obls += r3_scratch_write_back(facts)
    obls += r2b_created_records(facts)
    return obls, {'ir_functions': len(ir.fns), 'exported_roots': len(roots), 'reachable_functions': len(par), 'mutable_globals': n_mut}


STATE_CLASS_PREFIXES = ('OPNMIDIplay', 'OPN2', 'OpnMidiSequencer', 'OPNChipBase', 'OPNChipBaseT', 'MameOPN2', 'MameOPNA', 'NukedOPN2', 'GensOPN2',
                        'NP2OPNA', 'YmFmOPN2', 'YmFmOPNA', 'VGMFileDumper', 'MIDIEventHooks', 'FileAndMemReader', 'BW_MidiRtInterface', 'fraction')


def scalar(t):
    return bool(t.get('w')) or t.get('p') or t.get('f')


SCRATCH_MEMBERS = {'m_outBuf': 'scratch mix buffer: zero-filled for each period before it is read (the fill is checked by C13.R2)'}


def _stores_on_this(fn, fields_all):
    """names of the members of fn's class written in fn (assignment rooted at this, memset/memcpy of a member or of *this)"""
    init = set()
    for b, j, st in fn.cfg.stmts():
        s = st['s']
        if s.get('k') == 'CtorInit' and s.get('field'):
            init.add(short(s['field']))
        for x in walk(s):
            ap = assign_parts(x)
            tgt = ap[0] if ap else (x['e'] if is_incdec(x) else None)
            if tgt is not None and origin(fn, tgt)[0] == 'this':
                t = strip(tgt)
                chain = []
                while isinstance(t, dict):
                    if t.get('k') == 'MemberExpr':
                        chain.append(short(t['n'])); t = strip(t['b'])
                    elif t.get('k') == 'ArraySubscriptExpr':
                        t = strip(t['b'])
                    else:
                        break
                if chain:
                    init.add(chain[-1])
            if short(callee_name(x)) in ('memset', '__builtin_memset', 'memcpy', '__builtin_memcpy') and x.get('a'):
                a0 = strip(x['a'][0])
                if a0.get('k') == 'UnaryOperator' and a0.get('op') == '&':
                    a0 = strip(a0['e'])
                for y in walk(a0):
                    if y.get('k') == 'MemberExpr' and strip(y.get('b', {})).get('k') == 'CXXThisExpr':
                        init.add(short(y['n']))
                if a0.get('k') == 'CXXThisExpr':
                    init.update(fields_all)
    return init


def r2(facts):
    obls = []
    # creation closure: everything the player constructor reaches (the only way instance state comes into being)
    closure = {}
    roots = [f for f in facts.fns.get('OPNMIDIplay::OPNMIDIplay', [])]
    if not roots:
        raise build.AnalysisBroken('C14.R2: OPNMIDIplay constructor not found')
    q = [(r, 0) for r in roots]
    while q:
        fn, d = q.pop()
        if (fn.name, fn.sig) in closure:
            continue
        closure[(fn.name, fn.sig)] = fn
        if d >= 5:
            continue
        for b, j, st in fn.cfg.stmts():
            for c in calls_in(st['s']):
                for cf in facts.fns.get(callee_name(c), []):
                    q.append((cf, d + 1))
    for rname, r in sorted(facts.records.items()):
        base = rname.split('<')[0]
        if not base.startswith(STATE_CLASS_PREFIXES):
            continue
        fields = [f for f in r.get('fields', [])]
        sc = [f for f in fields if scalar(f['t']) or (f['t'].get('arr') and scalar(f['t'].get('el', {})))]
        sc = [f for f in sc if not re.match(r'_*padding', f['n'])]
        if not sc:
            continue
        ctors = [f for f in facts.fns.get(rname + '::' + short(base), []) if f.d.get('ctor') and not f.d.get('copyctor')]
        if not ctors:
            continue
        allnames = [f['n'] for f in fields]
        # members of this class written by any of its methods that the creation closure executes
        by_closure = set()
        for (n, sg), fn in closure.items():
            if fn.d.get('cls') == rname and not fn.d.get('ctor'):
                by_closure |= _stores_on_this(fn, allnames)
        for c in ctors:
            init = set()
            seen = set()
            def scan(fn, depth):
                init.update(_stores_on_this(fn, allnames))
                if depth <= 0:
                    return
                for b, j, st in fn.cfg.stmts():
                    for x in calls_in(st['s']):
                        if x.get('k') == 'CXXMemberCallExpr' and strip(x.get('obj') or {}).get('k') == 'CXXThisExpr':
                            for cf in facts.fns.get(callee_name(x), []):
                                if (cf.name, cf.sig) not in seen:
                                    seen.add((cf.name, cf.sig))
                                    scan(cf, depth - 1)
            scan(c, 4)
            for f in sc:
                if f['n'] in SCRATCH_MEMBERS:
                    obls.append(Obl('C14.R2', c.name, 'member ' + f['n'], c.loc, 'assumed', why=SCRATCH_MEMBERS[f['n']], nontrivial=False))
                    continue
                ok = f['n'] in init or f.get('dinit')
                why = 'initialised by the constructor'
                if not ok and f['n'] in by_closure:
                    ok = True
                    why = 'initialised by a member function that instance creation (the player constructor) always runs'
                obls.append(Obl('C14.R2', c.name, 'member ' + f['n'], c.loc, 'discharged' if ok else 'finding',
                                why=why if ok else 'scalar member is not initialised by this constructor, by a member function it calls, or during instance creation: its first read is indeterminate',
                                detail={'type': f['t'].get('s')}, nontrivial=False))
    return obls


def r3_scratch_write_back(facts):
    """The bundled C++ emulator cores keep their persistent chip state in one sub-object that reset() clears, next to scratch members
    that no constructor initialises (they are meant to be loaded from the state at the start of a render call and stored back at its
    end).  A store `<state member> = <scratch member>` puts an indeterminate value into the persistent state - and from there into
    the audio of every later call - unless the scratch member was written earlier in the same function on every path, or a
    constructor initialises it.  (View CORES: the cores that are C++ classes with user constructors; today LibGens::Ym2612.)"""
    out = []
    cf = Facts('CORES')
    n = 0
    for rname, r in sorted(cf.records.items()):
        base = rname.split('<')[0]
        ctors = [g for g in cf.fns.get(rname + '::' + short(base), []) if g.d.get('ctor') and not g.d.get('copyctor')]
        if not ctors or '/chips/' not in ctors[0].file:
            continue
        fields = r.get('fields', [])
        allnames = [x['n'] for x in fields]
        ctor_init = set(allnames)
        for c in ctors:
            ctor_init &= _stores_on_this(c, allnames) | {x['n'] for x in fields if x.get('dinit')}
        scratch = {x['n'] for x in fields if scalar(x['t']) and x['n'] not in ctor_init}
        persistent = {x['n'] for x in fields if not scalar(x['t']) and not x['t'].get('arr') and not x['t'].get('p')}     # sub-objects (the state struct)
        if not scratch or not persistent:
            continue
        def member_of(e, names):
            """name in `names` when e is <obj>.<name>[...] / <obj>-><name>.<..> rooted at an object of this record"""
            t = strip(e)
            chain = []
            while isinstance(t, dict):
                if t.get('k') == 'MemberExpr':
                    chain.append(t); t = strip(t.get('b') or {})
                elif t.get('k') == 'ArraySubscriptExpr':
                    t = strip(t['b'])
                else:
                    break
            for m in chain:
                if short(m['n']) in names and rname in m['n']:
                    return short(m['n'])
            return None
        for fn in cf.all_fns():
            if fn.tree is None or '/chips/' not in fn.file:
                continue
            for b, j, st in fn.cfg.stmts():
                for x in walk(st['s']):
                    ap = assign_parts_raw(x)
                    if not ap or ap[2] != '=':
                        continue
                    tgt = member_of(ap[0], persistent)
                    src = member_of(ap[1], scratch) if strip(ap[1]).get('k') == 'MemberExpr' else None
                    if not tgt or not src:
                        continue
                    n += 1
                    written = False
                    for b2, j2, st2 in fn.cfg.stmts():
                        if not ((b2 == b and j2 < j) or (b2 != b and fn.cfg.block_dominates(b2, b))):
                            continue
                        for y in walk(st2['s']):
                            ap2 = assign_parts_raw(y)
                            if ap2 and ap2[2] == '=' and strip(ap2[0]).get('k') == 'MemberExpr' and member_of(ap2[0], {src}) == src:
                                written = True
                    out.append(Obl('C14.R3', fn.name, '%s <- scratch member %s' % (show(ap[0])[:40], src), st['loc'], 'discharged' if written else 'finding',
                                   why='the scratch member is written earlier in the function on every path' if written else
                                   'no constructor initialises %s::%s and this function stores it into the persistent chip state without having written it on every path: '
                                   'when every channel is silent the channel updates return before loading it, heap garbage becomes the interpolation phase and the audio of the '
                                   'instance differs from run to run' % (short(base), src)))
    if n < 1:
        raise build.AnalysisBroken('C14.R3: no write-back of a scratch member into persistent core state found (GENS update())')
    return out


def r2b_created_records(facts):
    """R2 covers classes with constructors.  The active-note record (MIDIchannel::NoteInfo) has none: find_or_create_activenote() inserts
    a default-initialised entry with only the key set, so every scalar field is indeterminate until the caller stores it.  The note
    lists are walked by the voice allocation (calculateChipChannelGoodness reads isPercussion, vibrato) and by updateGlide (tone
    fields): each function that creates an entry must store every scalar field on every path before it returns."""
    out = []
    rec = None
    for rname, r in facts.records.items():
        if rname.endswith('MIDIchannel::NoteInfo'):
            rec = r
    if rec is None:
        raise build.AnalysisBroken('C14.R2: record MIDIchannel::NoteInfo not found')
    want = [f['n'] for f in rec.get('fields', []) if scalar(f['t'])]
    n = 0
    for fn in facts.all_fns():
        if not fn.name.startswith('OPNMIDIplay::') or '::MIDIchannel::' in fn.name or fn.tree is None:
            continue
        for b, j, st in fn.cfg.stmts():
            if st['s'].get('k') != 'DeclStmt':
                continue
            for v in st['s']['decls']:
                if v.get('init') is None or not any(short(callee_name(y)) in ('ensure_find_or_create_activenote', 'find_or_create_activenote') for y in calls_in(v['init'])):
                    continue
                n += 1
                it_id = v['id']
                # names for the new entry: the iterator itself and references bound to it->value
                refs = {it_id}
                for b2, j2, st2 in fn.cfg.stmts():
                    if st2['s'].get('k') == 'DeclStmt':
                        for v2 in st2['s']['decls']:
                            if v2.get('init') is not None and (v2.get('ref') or (v2.get('t') or {}).get('ref')) and mentions(v2['init'], lambda y: y.get('id') == it_id):
                                refs.add(v2['id'])
                pd = fn.cfg.pdom().get(('b', b)) or ()
                stored = set()
                created_by_callee = {'note'}       # the creator stores the key
                for b2, j2, st2 in fn.cfg.stmts():
                    if not ((b2 == b and j2 > j) or (b2 != b and ('b', b2) in pd)):
                        continue
                    for y in walk(st2['s']):
                        ap = assign_parts_raw(y)
                        if ap and strip(ap[0]).get('k') == 'MemberExpr' and mentions(strip(ap[0]).get('b'), lambda z: z.get('id') in refs):
                            stored.add(short(strip(ap[0])['n']))
                missing = [f for f in want if f not in stored and f not in created_by_callee]
                out.append(Obl('C14.R2', fn.name, 'new active note: every scalar field stored', st['loc'], 'finding' if missing else 'discharged',
                               why=('the entry created here keeps indeterminate %s on a path to the end of the function: the voice allocation and the glide update read these fields of every '
                                    'listed note, so the chosen chip channel (and the audio) depends on stack garbage' % ', '.join(missing)) if missing else
                               'all %d scalar fields are stored on every path after the creation' % len(want)))
    if n < 2:
        raise build.AnalysisBroken('C14.R2: creation sites of active notes not found (%d)' % n)
    return out
