"""E6 — monotonicity lattice on top of the interval engine.

Every abstract value carries, besides its interval, its direction with respect to ONE chosen input:
    C (does not depend on it), INC (non-decreasing), DEC (non-increasing), UNK.
Composition rules need signs (product of non-negative non-decreasing terms, division by a positive quantity,
subtraction from a constant, truncating casts, monotone library functions, lookup in a table whose initialiser is
itself monotone).  Joins at if/else are monotone when the branch condition is a threshold test on a monotone
quantity and the interval of the upper branch lies above the interval of the lower branch.
"""
from .core import *
from .e2 import *
from .logic import const_of

C, INC, DEC, UNK = 'C', 'INC', 'DEC', 'UNK'


def neg(d):
    return {C: C, INC: DEC, DEC: INC, UNK: UNK}[d]


def add(a, b):
    if a == C:
        return b
    if b == C:
        return a
    return a if a == b else UNK


class Mono(Engine2):
    """Engine2 that also tracks the direction of every scalar with respect to the variable `wrt_key`"""

    def __init__(self, *a, **kw):
        Engine2.__init__(self, *a, **kw)
        self.wrt = None
        self.mono = {}          # env key -> direction (kept beside the interval state; cleared per run)
        self.mono_notes = []

    def table_dir(self, base):
        tv = self.table_values(base)
        if tv is None:
            return None
        inc = all(tv[i] <= tv[i + 1] for i in range(len(tv) - 1))
        dec = all(tv[i] >= tv[i + 1] for i in range(len(tv) - 1))
        return INC if inc else (DEC if dec else None)

    def dir_of(self, e, st):
        """direction of expression e w.r.t. the chosen input"""
        if e is None:
            return UNK
        k = e.get('k')
        if 'c' in e and k not in ('CallExpr', 'CXXMemberCallExpr', 'CXXOperatorCallExpr', 'DeclRefExpr'):
            return C
        if 'fc' in e and k == 'FloatingLiteral':
            return C
        if k == 'DeclRefExpr':
            key = ('v', e.get('id'))
            if key == self.wrt:
                return self.mono.get(key, INC)
            if key in self.mono:
                return self.mono[key]
            return C
        if k == 'MemberExpr':
            key = ('f', show(e))
            if key == self.wrt:
                return self.mono.get(key, INC)
            if e.get('n') == self.wrt_field:
                return INC
            return self.mono.get(key, C)
        if k and k.endswith('CastExpr') and 'e' in e:
            return self.dir_of(e['e'], st)
        if k == 'UnaryOperator':
            if e['op'] == '-':
                return neg(self.dir_of(e['e'], st))
            if e['op'] in ('+',):
                return self.dir_of(e['e'], st)
            return C if self.dir_of(e['e'], st) == C else UNK
        if k in ('BinaryOperator', 'CompoundAssignOperator'):
            op = e['op']
            base = op[:-1] if (op.endswith('=') and op not in ('<=', '>=', '==', '!=')) else op
            if op == '=':
                return self.dir_of(e['r'], st)
            dl, dr = self.dir_of(e['l'], st), self.dir_of(e['r'], st)
            if dl == C and dr == C:
                return C
            vl, vr = self.ev(e['l'], st), self.ev(e['r'], st)
            nonneg = lambda v: v is not None and v.lo >= 0
            pos = lambda v: v is not None and v.lo > 0
            if base == '+':
                return add(dl, dr)
            if base == '-':
                return add(dl, neg(dr))
            if base == '*':
                if nonneg(vl) and nonneg(vr):
                    return add(dl, dr)
                return UNK
            if base == '/':
                if dr == C and pos(vr):
                    return dl if nonneg(vl) or True else UNK
                if dl == C and nonneg(vl) and pos(vr):
                    return neg(dr)
                return UNK
            if base in ('>>', '<<'):
                return dl if dr == C and nonneg(vl) else UNK
            if base == '&':
                return UNK
            return UNK
        if k == 'ArraySubscriptExpr':
            di = self.dir_of(e['i'], st)
            if di == C:
                return C
            td = self.table_dir(e['b'])
            if td is None or di == UNK:
                return UNK
            return di if td == INC else neg(di)
        if k == 'ConditionalOperator':
            return self._branch_dir(e['cnd'], lambda s: (self.dir_of(e['l'], s), self.ev(e['l'], s)), lambda s: (self.dir_of(e['r'], s), self.ev(e['r'], s)), st)
        if 'callee' in e:
            name = e.get('callee', '')
            sn = short(name)
            args = e.get('a', [])
            if (name in self.MONO or sn in self.MONO) and len(args) == 1 and sn not in ('fabs',):
                return self.dir_of(args[0], st)
            if name in ('std::min', 'std::max') and len(args) == 2:
                return add(self.dir_of(args[0], st), self.dir_of(args[1], st))
            ie = inline_expr(self.facts, e)
            if ie is not None:
                s2 = st.copy()
                for p_, a_ in ie[1]:
                    av = self.ev(a_, st)
                    key = ('v', p_['id'])
                    if av is not None:
                        s2.env[key] = convert(av, p_['t']) if trange(p_['t']) else av
                    self.mono[key] = self.dir_of(a_, st)
                return self.dir_of(ie[0], s2)
            ds = [self.dir_of(a, st) for a in args]
            return C if all(d == C for d in ds) else UNK
        return C if not mentions(e, lambda y: self.key_of(y) == self.wrt) else UNK

    def _branch_dir(self, cond, then_f, else_f, st):
        """direction of `cond ? A : B` / if-else join: monotone when cond is a threshold test on a monotone value and the
        branch taken for larger inputs yields values above the other branch"""
        s1, s2 = st.copy(), st.copy()
        self.refine(cond, True, s1)
        self.refine(cond, False, s2)
        (da, va), (db, vb) = then_f(s1), else_f(s2)
        c = strip(cond)
        if c.get('k') == 'BinaryOperator' and c['op'] in ('>', '>=', '<', '<='):
            dl, dr = self.dir_of(c['l'], st), self.dir_of(c['r'], st)
            # normalise to "monotone quantity above a constant"
            updir = None
            if dr == C and dl in (INC, DEC):
                updir = dl if c['op'] in ('>', '>=') else neg(dl)
            elif dl == C and dr in (INC, DEC):
                updir = neg(dr) if c['op'] in ('>', '>=') else dr
            elif dl == C and dr == C:
                # the condition does not depend on the input: plain join
                return da if da == db else (da if db == C and False else (UNK if da != db else da))
            if updir is not None and va is not None and vb is not None and da != UNK and db != UNK:
                # then-branch is taken for larger input when updir == INC
                hi_v, lo_v = (va, vb) if updir == INC else (vb, va)
                want = INC
                if all(d in (C, want) for d in (da, db)) and hi_v.lo >= lo_v.hi:
                    return INC
                if all(d in (C, DEC) for d in (da, db)) and hi_v.hi <= lo_v.lo:
                    return DEC
                return UNK
        if da == db == C:
            cd = C if not mentions(cond, lambda y: self.key_of(y) == self.wrt or (y.get('k') == 'MemberExpr' and y.get('n') == self.wrt_field)) and all(self.mono.get(self.key_of(y), C) == C for y in walk(cond) if self.key_of(y)) else UNK
            return cd
        return UNK

    # ---- statements: maintain self.mono alongside the interval state
    def assign_to(self, tgt, val, st, op='=', rhs_expr=None):
        key = self.key_of(tgt)
        if key is not None and rhs_expr is not None:
            self.mono[key] = self.dir_of(rhs_expr, st)
        elif key is not None:
            self.mono[key] = self.mono.get(key, C) if op in ('++', '--') else UNK
        Engine2.assign_to(self, tgt, val, st, op, rhs_expr)

    def _effects(self, e, st):
        # compound assignments: direction of `l op= r` is that of `l op r`
        if isinstance(e, dict) and e.get('k') == 'CompoundAssignOperator':
            key = self.key_of(e['l'])
            d = self.dir_of(e, st)
            Engine2._effects(self, e, st)
            if key is not None:
                self.mono[key] = d
            return
        Engine2._effects(self, e, st)

    def stmt(self, s, st):
        k = s.get('k') if isinstance(s, dict) else None
        if k == 'DeclStmt':
            for v in s['decls']:
                if 'init' in v and not (v.get('ref') or v['t'].get('ref')):
                    self.mono[('v', v['id'])] = self.dir_of(v['init'], st)
            return Engine2.stmt(self, s, st)
        if k == 'IfStmt':
            # direction of every variable assigned in the branches after the join
            before = dict(self.mono)
            cond = s['cond']
            keys, _ = self._assigned({'t': s.get('then'), 'e': s.get('else')})
            st0 = st.copy()
            # run both branches separately to obtain per-branch directions and intervals
            self.mono = dict(before)
            s1 = st0.copy(); self.refine(cond, True, s1)
            c = self.cond(cond, st0)
            f1, _ = Engine2.stmt(self, s.get('then'), s1) if c is not False else (None, [])
            m1 = dict(self.mono)
            self.mono = dict(before)
            s2 = st0.copy(); self.refine(cond, False, s2)
            f2, _ = (Engine2.stmt(self, s.get('else'), s2) if s.get('else') is not None else (s2, [])) if c is not True else (None, [])
            m2 = dict(self.mono)
            self.mono = dict(before)
            res = Engine2.stmt(self, s, st)
            self.mono = dict(before)
            for key in keys:
                if key[0] == 'arr':
                    continue
                if f1 is None and f2 is not None:
                    self.mono[key] = m2.get(key, C)
                    continue
                if f2 is None and f1 is not None:
                    self.mono[key] = m1.get(key, C)
                    continue
                if f1 is None and f2 is None:
                    continue
                va, vb = f1.env.get(key), f2.env.get(key)
                da, db = m1.get(key, before.get(key, C)), m2.get(key, before.get(key, C))
                self.mono[key] = self._branch_dir(cond, lambda _s: (da, va), lambda _s: (db, vb), st0)
            return res
        if k == 'SwitchStmt':
            # the selector must not depend on the input; each case is analysed on its own by the caller
            return Engine2.stmt(self, s, st)
        return Engine2.stmt(self, s, st)
