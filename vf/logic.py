"""Small propositional helpers over condition expressions of CFG edges."""
from .core import show, strip, walk, short

NEG = {'==': '!=', '!=': '==', '<': '>=', '>=': '<', '>': '<=', '<=': '>'}
SWAP = {'==': '==', '!=': '!=', '<': '>', '>': '<', '<=': '>=', '>=': '<='}


def literals(cond, pol):
    """Decompose `cond` taken with polarity `pol` into a conjunction of facts.
    Each fact is ('cmp', op, lhs, rhs) | ('truth', expr, bool) | ('or', [facts-lists...]).
    Anything that cannot be decomposed is kept as a 'truth' fact."""
    c = strip(cond)
    if not isinstance(c, dict):
        return []
    k = c.get('k')
    if k == 'UnaryOperator' and c.get('op') == '!':
        return literals(c['e'], not pol)
    if k == 'BinaryOperator':
        op = c['op']
        if op == '&&':
            if pol:
                return literals(c['l'], True) + literals(c['r'], True)
            return [('or', [literals(c['l'], False), literals(c['r'], False)])]
        if op == '||':
            if not pol:
                return literals(c['l'], False) + literals(c['r'], False)
            return [('or', [literals(c['l'], True), literals(c['r'], True)])]
        if op in NEG:
            return [('cmp', op if pol else NEG[op], c['l'], c['r'])]
    return [('truth', c, pol)]


def edge_facts(edge, sd=None):
    """facts established by a dominating edge (see CFG.dominating_edges)"""
    from .core import subst
    if edge['kind'] == 'branch':
        c = subst(edge['cond'], sd) if sd else edge['cond']
        return literals(c, edge['pol'])
    if edge['kind'] == 'case':
        c = subst(edge['cond'], sd) if sd else edge['cond']
        if edge.get('default') or not edge.get('cases'):
            return [('case-default', c)]
        return [('case', c, tuple(edge['cases']))]
    return []


def fact_str(f):
    if f[0] == 'cmp':
        return '%s %s %s' % (show(f[2]), f[1], show(f[3]))
    if f[0] == 'truth':
        return ('' if f[2] else '!') + show(f[1])
    if f[0] == 'or':
        return '(' + ' || '.join(' && '.join(fact_str(x) for x in alt) for alt in f[1]) + ')'
    if f[0] == 'case':
        return 'switch(%s)==%s' % (show(f[1]), '/'.join(hex(c) for c in f[2]))
    if f[0] == 'case-default':
        return 'switch(%s) default' % show(f[1])
    return str(f)


def const_of(e):
    e2 = e
    if isinstance(e2, dict) and 'c' in e2:
        return e2['c']
    e2 = strip(e)
    if isinstance(e2, dict) and 'c' in e2:
        return e2['c']
    return None


def cmp_norm(f):
    """normalise a cmp fact so that a constant (if any) is on the right: (op, expr, const) or None"""
    if f[0] != 'cmp':
        return None
    _, op, l, r = f
    cl, cr = const_of(l), const_of(r)
    if cr is not None and cl is None:
        return op, l, cr
    if cl is not None and cr is None:
        return SWAP[op], r, cl
    return None


def guard_facts(fn, blk, st, sd=None, loops=True):
    """all facts known to hold when statement st of block blk executes: conditions of dominating CFG edges
    plus the conditions of the enclosing structured statements (which also covers `a || b` guards, whose
    then-branch is not dominated by a single edge)"""
    from .core import subst
    out = []
    for e in fn.cfg.dominating_edges(blk):
        if not loops and e.get('term') in ('ForStmt', 'WhileStmt', 'DoStmt'):
            continue      # loop entry / exit conditions
        out += edge_facts(e, sd)
    seen = {fact_str(f) for f in out}
    for g in fn.enclosing(st):
        if g[0] == 'if':
            c = subst(g[1], sd) if sd else g[1]
            fs = literals(c, g[2])
        elif g[0] == 'loop':
            continue
        elif g[0] == 'switch':
            c = subst(g[1], sd) if sd else g[1]
            vals = g[2]
            if not vals or 'default' in vals:
                fs = [('case-default', c)]
            else:
                fs = [('case', c, tuple(vals))]
        else:
            continue
        for f in fs:
            if fact_str(f) not in seen:
                seen.add(fact_str(f))
                out.append(f)
    return out


# ---------------------------------------------------------------------------------------------------------------
# a small refutation procedure for conjunctions of guard facts (used to discard infeasible paths)
def expand_locals(fn, facts_list, depth=0):
    """replace truth facts on a local bool that has a single initialiser by the literals of that initialiser"""
    if depth > 3:
        return facts_list
    inits = {}
    multi = set()
    for b, j, st in fn.cfg.stmts():
        s_ = st['s']
        if s_.get('k') == 'DeclStmt':
            for v in s_['decls']:
                if v.get('init') is not None:
                    inits[v['id']] = v['init']
        for x in walk(s_):
            from .core import assign_parts as _ap
            ap = _ap(x)
            if ap and strip(ap[0]).get('k') == 'DeclRefExpr':
                multi.add(strip(ap[0])['id'])
    out = []
    for f in facts_list:
        if f[0] == 'truth':
            e = strip(f[1])
            if e.get('k') == 'DeclRefExpr' and not e.get('parm') and e.get('id') in inits and e.get('id') not in multi:
                out += expand_locals(fn, literals(inits[e['id']], f[2]), depth + 1)
                continue
        if f[0] == 'or':
            out.append(('or', [expand_locals(fn, alt, depth + 1) for alt in f[1]]))
            continue
        out.append(f)
    return out


def _atom(f):
    """('t', text, pol) for truth facts, ('c', text, lo, hi) integer range for comparisons with a constant, else None"""
    if f[0] == 'truth':
        return ('t', show(strip(f[1])), bool(f[2]))
    if f[0] == 'cmp':
        n = cmp_norm(f)
        if n and isinstance(n[2], int):
            op, e, c = n
            txt = show(strip(e))
            INF = 10 ** 30
            if op == '<':
                return ('c', txt, -INF, c - 1)
            if op == '<=':
                return ('c', txt, -INF, c)
            if op == '>':
                return ('c', txt, c + 1, INF)
            if op == '>=':
                return ('c', txt, c, INF)
            if op == '==':
                return ('c', txt, c, c)
            if op == '!=':
                return ('ne', txt, c)
    return None


def unsat(facts_list):
    """True when the conjunction of the facts is certainly contradictory (sound: unknown facts are ignored)"""
    truth = {}
    rng = {}
    nes = []
    ors = []
    for f in facts_list:
        if f[0] == 'or':
            ors.append(f)
            continue
        a = _atom(f)
        if a is None:
            continue
        if a[0] == 't':
            if truth.get(a[1], a[2]) != a[2]:
                return True
            truth[a[1]] = a[2]
        elif a[0] == 'c':
            lo, hi = rng.get(a[1], (-10 ** 30, 10 ** 30))
            lo, hi = max(lo, a[2]), min(hi, a[3])
            if lo > hi:
                return True
            rng[a[1]] = (lo, hi)
        else:
            nes.append(a)
    for _, txt, c in nes:
        if rng.get(txt) == (c, c):
            return True
    base = [f for f in facts_list if f[0] != 'or']
    for o in ors:
        if all(unsat(base + list(alt)) for alt in o[1]):
            return True
    return False


def neg_fact(f):
    """the negation of one fact as a conjunction (list) of facts; None when it cannot be expressed"""
    if f[0] == 'cmp':
        return [('cmp', NEG[f[1]], f[2], f[3])] if f[1] in NEG else None
    if f[0] == 'truth':
        return [('truth', f[1], not f[2])]
    if f[0] == 'or':
        out = []
        for alt in f[1]:
            if len(alt) == 1:
                n = neg_fact(alt[0])
                if n is None:
                    return None
                out += n
            else:
                alts = []
                for l in alt:
                    n = neg_fact(l)
                    if n is None:
                        return None
                    alts.append(n)
                out.append(('or', alts))
        return out
    return None


def has_room_fact(fn, facts_list):
    """one of the facts says `X.size() != X.capacity()` / `X.size() < X.capacity()` (in either operand order, possibly through a named
    local condition): the test that makes an insert into a fixed-capacity pl_list safe"""
    from .core import callee_name, short, show
    for f in expand_locals(fn, facts_list):
        if f[0] != 'cmp':
            continue
        l, r = strip(f[2]), strip(f[3])
        names = (short(callee_name(l)), short(callee_name(r)))
        if names == ('size', 'capacity') and f[1] in ('!=', '<') or names == ('capacity', 'size') and f[1] in ('!=', '>'):
            if l.get('obj') is not None and r.get('obj') is not None and show(l['obj']) == show(r['obj']):
                return True
    return False


def minlike(e):
    """the two operands when e computes their minimum: std::min(a, b), (a < b ? a : b), (a > b ? b : a) and the <= / >= forms"""
    from .core import callee_name, short, show
    e = strip(e)
    if e is not None and 'callee' in e and short(callee_name(e)) == 'min' and len(e.get('a', [])) == 2:
        return strip(e['a'][0]), strip(e['a'][1])
    if e is None or e.get('k') != 'ConditionalOperator':
        return None
    lits = [f for f in literals(e['cnd'], True) if f[0] == 'cmp']
    if len(lits) != 1:
        return None
    _, op, cl, cr = lits[0]
    l, r = show(strip(e['l'])), show(strip(e['r']))
    a, b = show(strip(cl)), show(strip(cr))
    if op in ('<', '<=') and (l, r) == (a, b):
        return strip(e['l']), strip(e['r'])
    if op in ('>', '>=') and (l, r) == (b, a):
        return strip(e['l']), strip(e['r'])
    return None


def facts_of_guards(guards):
    """tree guards [('if', cond, pol) | ('switch', cond, values) | ('loop', cond)] as a list of facts (loops give nothing)"""
    out = []
    for g in guards:
        if g[0] == 'if':
            out += literals(g[1], g[2])
        elif g[0] == 'switch':
            vals = g[2]
            out.append(('case-default', g[1]) if (not vals or 'default' in vals) else ('case', g[1], tuple(vals)))
    return out


def with_case_facts(fn, facts_list):
    """facts_list plus, for every fact `e == C` (C an integer constant; e may be a local defined once, which is replaced by its
    initialiser) or disjunction of such tests on one e, the fact ('case', e, (C, ..)) a `switch(e)` would have given: rules that ask
    "is this statement in the arm for value C" then read a switch and an if / else-if chain alike."""
    from .core import single_defs, subst
    sd = single_defs(fn.d)
    out = list(facts_list)
    def eq(f):
        if f[0] == 'cmp' and f[1] == '==':
            for a, b in ((f[2], f[3]), (f[3], f[2])):
                c = const_of(b)
                if c is not None and const_of(a) is None and isinstance(c, int):
                    return strip(subst(strip(a), sd)), c
        return None
    for f in facts_list:
        e = eq(f)
        if e:
            out.append(('case', e[0], (e[1],)))
        elif f[0] == 'or' and all(len(alt) == 1 and eq(alt[0]) for alt in f[1]):
            es = [eq(alt[0]) for alt in f[1]]
            if len({show(x[0]) for x in es}) == 1:
                out.append(('case', es[0][0], tuple(x[1] for x in es)))
    return out


def expand_helper_calls(facts, facts_list):
    """truth facts on a call of a formula helper (core.inline_expr: `static bool isX(a) { return <expression>; }`) are replaced by
    the literals of the expression with the arguments put in: a predicate that was given a name reads like the predicate itself"""
    from .core import inline_expr, subst
    out = []
    for f in facts_list:
        if f[0] == 'truth' and isinstance(strip(f[1]), dict) and 'callee' in strip(f[1]):
            ie = inline_expr(facts, strip(f[1]))
            if ie is not None:
                e = subst(ie[0], {p_['id']: a_ for p_, a_ in ie[1]})
                while isinstance(e, dict) and (e.get('k') or '').endswith('CastExpr') and 'e' in e:
                    e = e['e']
                out += literals(e, f[2])
                continue
        if f[0] == 'or':
            out.append(('or', [expand_helper_calls(facts, alt) for alt in f[1]]))
            continue
        out.append(f)
    return out


def append_sites(fn, wrappers=None, sd=None):
    """(container DeclRefExpr, appended expression, guard facts, location) of every append to a local container in fn:
    `X.push_back(e)`, a call of an append wrapper (name -> (index of container, index of element)), or `P->push_back(e)` through a
    local pointer P that only ever holds `&X` of local containers - then one site per such assignment, under the guards of the
    assignment together with those of the append (`group = &noteOffs; .. group->push_back(events[i])`)."""
    from .core import calls_in, callee_name, short, strip, walk, assign_parts_raw
    stmts = list(fn.cfg.stmts())
    ptr_defs = {}          # pointer local -> [(target DeclRefExpr or None, b, st)]
    for b, j, st in stmts:
        s_ = st['s']
        cands = []
        if s_.get('k') == 'DeclStmt':
            for v in s_['decls']:
                if ((v.get('t') or {}).get('p')) and v.get('init') is not None:
                    cands.append((v['id'], v['init']))
        for x in walk(s_):
            ap = assign_parts_raw(x) if isinstance(x, dict) else None
            if ap and strip(ap[0]).get('k') == 'DeclRefExpr' and ((strip(ap[0]).get('t') or {}).get('p')):
                cands.append((strip(ap[0])['id'], ap[1] if ap[2] == '=' else None))
        for vid, rhs in cands:
            r = strip(rhs) if rhs is not None else None
            tgt = None
            if r is not None and r.get('k') == 'UnaryOperator' and r.get('op') == '&' and strip(r['e']).get('k') == 'DeclRefExpr':
                tgt = strip(r['e'])
            ptr_defs.setdefault(vid, []).append((tgt, b, st))
    for b, j, st in stmts:
        for x in calls_in(st['s']):
            tgt = src = None
            if short(callee_name(x)) == 'push_back' and x.get('obj') is not None and strip(x['obj']).get('k') == 'DeclRefExpr' and x.get('a'):
                tgt, src = strip(x['obj']), x['a'][0]
            elif wrappers and callee_name(x) in wrappers and x.get('obj') is None:
                pi, qi = wrappers[callee_name(x)]
                if len(x.get('a') or []) > max(pi, qi) and strip(x['a'][pi]).get('k') == 'DeclRefExpr':
                    tgt, src = strip(x['a'][pi]), x['a'][qi]
            if tgt is None:
                continue
            gf = guard_facts(fn, b, st, sd=sd) if sd else guard_facts(fn, b, st)
            defs = ptr_defs.get(tgt.get('id'))
            if defs and all(d_[0] is not None for d_ in defs):
                for t2, b2, st2 in defs:
                    yield t2, src, (guard_facts(fn, b2, st2, sd=sd) if sd else guard_facts(fn, b2, st2)) + gf, st2['loc']
            else:
                yield tgt, src, gf, st['loc']


def min_defs(fn):
    """{variable id: [(operand, operand)]} for every definition of a local as the minimum of two values: an initialiser / assignment
    that is minlike(), or `v = a;` directly followed by `if(v > b) v = b;` (>=, or the mirrored `b < v`)"""
    from .core import walk, assign_parts_raw, show
    out = {}
    def defs_of(s_):
        if not isinstance(s_, dict):
            return
        if s_.get('k') == 'DeclStmt':
            for v in s_.get('decls', []):
                if v.get('init') is not None:
                    yield v['id'], v['init']
        else:
            ap = assign_parts_raw(s_)
            if ap and ap[2] == '=' and strip(ap[0]).get('k') == 'DeclRefExpr':
                yield strip(ap[0])['id'], ap[1]
    def lists(t):
        if isinstance(t, list):
            yield t
            for y in t:
                yield from lists(y)
        elif isinstance(t, dict):
            for k_ in ('body', 'then', 'else', 'sub', 'init'):
                v = t.get(k_)
                if isinstance(v, (list, dict)):
                    yield from lists(v)
    for L in lists(fn.tree):
        for i, s_ in enumerate(L):
            for vid, init in defs_of(s_):
                m = minlike(init)
                if m:
                    out.setdefault(vid, []).append(m)
                    continue
                nxt = L[i + 1] if i + 1 < len(L) else None
                if isinstance(nxt, dict) and nxt.get('k') == 'IfStmt' and nxt.get('else') is None:
                    lits = [f for f in literals(nxt['cond'], True)]
                    body = nxt.get('then')
                    while isinstance(body, dict) and body.get('k') == 'CompoundStmt' and len(body.get('body') or []) == 1:
                        body = body['body'][0]
                    ap = assign_parts_raw(body) if isinstance(body, dict) else None
                    if len(lits) == 1 and lits[0][0] == 'cmp' and ap and ap[2] == '=' and strip(ap[0]).get('id') == vid:
                        _, op, l, r = lits[0]
                        lim = None
                        if op in ('>', '>=') and strip(l).get('id') == vid:
                            lim = r
                        elif op in ('<', '<=') and strip(r).get('id') == vid:
                            lim = l
                        if lim is not None and show(strip(lim)) == show(strip(ap[1])):
                            out.setdefault(vid, []).append((strip(init), strip(lim)))
    return out
