"""E2 — interval / guarded-index engine.

A forward interval abstract interpreter over the structured body of one function.  Values are closed intervals of
integers (C semantics: computation in the operator's type, wrap to the full type range when a result can leave an
unsigned type, full range on signed overflow) or of doubles (monotone library functions evaluated at the corners).
Branch conditions refine variables; clamp idioms, masks, modulo, shifts, std::min/std::max are interpreted; counted
loops bound their induction variable, everything else a loop assigns is havocked to its type range.  Relational
facts `x < size(container)` are kept for guarded vector indexes.  Every subscript of an object with a compile-time
extent (and of the tracked vectors) is an obligation index <= extent-1.

Values carry an `inp` flag (depends on a function parameter): an index that cannot be bounded is a *finding* when it
is input-derived and an *assumed* class invariant otherwise.
"""
import math
from .core import *
from .logic import const_of

INFTY = float('inf')


class V:
    __slots__ = ('lo', 'hi', 'f', 'inp', 'vf', 'lt')

    def __init__(self, lo, hi, f=False, inp=False, vf=None, lt=None):
        self.lo, self.hi, self.f, self.inp = lo, hi, f, inp
        self.vf = vf          # containers for which the value was validated (`< size`) when it was stored into member state
        self.lt = lt          # containers X for which `value < X.size()` holds right now (set on the value a callee returns)

    def __repr__(self):
        return '[%s, %s]%s' % (self.lo, self.hi, 'f' if self.f else '')

    def is_point(self):
        return self.lo == self.hi

    def join(self, o):
        if o is None:
            return self
        vf = (self.vf & o.vf) if (self.vf is not None and o.vf is not None) else None
        lt = (self.lt & o.lt) if (self.lt is not None and o.lt is not None) else None
        return V(min(self.lo, o.lo), max(self.hi, o.hi), self.f or o.f, self.inp or o.inp, vf, lt)

    def eq(self, o):
        return o is not None and self.lo == o.lo and self.hi == o.hi and self.f == o.f


def trange(t):
    """value range of a C type description (see opnfacts ty()) or None when not numeric"""
    if not t:
        return None
    if t.get('bool'):
        return V(0, 1)
    if t.get('f'):
        return V(-INFTY, INFTY, True)
    w = t.get('w')
    if w and not t.get('p'):
        if t.get('u'):
            return V(0, (1 << w) - 1)
        return V(-(1 << (w - 1)), (1 << (w - 1)) - 1)
    return None


def convert(v, t):
    """C conversion of an abstract value to type t"""
    r = trange(t)
    if v is None or r is None:
        return r
    if r.f:
        return V(float(v.lo), float(v.hi), True, v.inp)
    lo, hi = v.lo, v.hi
    if v.f:
        if lo != lo or hi != hi or lo == -INFTY or hi == INFTY:
            return V(r.lo, r.hi, False, v.inp)
        lo, hi = int(math.trunc(lo)), int(math.trunc(hi))
    if lo >= r.lo and hi <= r.hi:
        return V(lo, hi, False, v.inp, v.vf, v.lt if not v.f else None)
    if t.get('bool'):
        return V(0, 1, False, v.inp)
    # a range that lies inside one 2^w window converts by the same offset for all its values (in particular a single value wraps
    # exactly: (uint32_t)INT32_MIN is 2^31)
    w = t.get('w')
    if w and not v.f and isinstance(lo, int) and isinstance(hi, int):
        m = 1 << w
        k_lo, k_hi = (lo - r.lo) // m, (hi - r.lo) // m
        if k_lo == k_hi:
            return V(lo - k_lo * m, hi - k_lo * m, False, v.inp)
    return V(r.lo, r.hi, False, v.inp, v.vf if (t.get('u') and v.lo >= 0) else None)


class Obligation2:
    def __init__(self, fn, ln, construct, idx, ext, ok, inp, kind='index'):
        self.fn, self.ln, self.construct, self.idx, self.ext, self.ok, self.inp, self.kind = fn, ln, construct, idx, ext, ok, inp, kind


class St:
    __slots__ = ('env', 'facts', 'pend')

    def __init__(self, env=None, facts=None, pend=None):
        self.env = env or {}
        self.facts = facts or set()
        self.pend = pend or {}        # member path key -> (qualified field, value, line): stores not yet visible to other functions

    def copy(self):
        return St(dict(self.env), set(self.facts), dict(self.pend))


def join_states(a, b, min_sizes=None):
    if a is None:
        return b
    if b is None:
        return a
    env = {}
    for k in set(a.env) & set(b.env):
        va, vb = a.env[k], b.env[k]
        if va is not None and vb is not None:
            env[k] = va.join(vb)
    fa, fb = set(a.facts), set(b.facts)
    if min_sizes:
        # an interval inside [0, minimal size - 1] implies the relational fact
        for src, dst, other in ((fa, fb, b), (fb, fa, a)):
            for f in list(src):
                if f[0] == 'lt_size' and f not in dst:
                    v = other.env.get(f[1])
                    ms = min_sizes.get(f[2])
                    if v is not None and ms is not None and not v.f and v.lo >= 0 and v.hi <= ms - 1:
                        dst.add(f)
    pend = {}
    def narrowed(stt, k):
        p = stt.pend.get(k)
        if p is None:
            return None
        cur = stt.env.get(k)
        v = p[1]
        if cur is not None and not cur.f and not v.f:
            lo, hi = max(v.lo, cur.lo), min(v.hi, cur.hi)
            if lo <= hi:
                v = V(lo, hi, v.f, v.inp, v.vf)
        return (p[0], v, p[2])
    for k in set(a.pend) | set(b.pend):
        pa, pb = narrowed(a, k), narrowed(b, k)
        if pa is not None and pb is not None:
            pend[k] = (pa[0], pa[1].join(pb[1]), pa[2])
        else:
            pend[k] = pa or pb
    return St(env, fa & fb, pend)


class Engine2:
    def __init__(self, facts, field_ranges=None, min_sizes=None, param_ranges=None, tables=None, resizers=None):
        self.resizers = resizers          # container -> names of functions that may (transitively) resize it; None = unknown
        self.optimistic = False           # first round of the invariant iteration: unknown fields count as validated
        self.facts = facts
        self.field_ranges = field_ranges or {}      # qualified field name -> V
        self.min_sizes = min_sizes or {}            # container member short name -> minimal size
        self.param_ranges = param_ranges or {}      # (fn name, param index) -> V
        self.obl = []
        self.stores = []                            # (qualified field, V) seen at every member store
        self.calls = []                             # (callee name, [V or None per arg]) for call-site joins
        self.depth = 0
        self.returns = []
        self.notes = []
        self.div_obl = []
        self.value_hooks = []                       # callables(engine, expr, st)
        self.visited = set()                        # (line, kind) of leaf statements the interpreter reached

    # ------------------------------------------------------------------ values
    def key_of(self, e):
        e = strip_keep(e)
        k = e.get('k')
        if k == 'DeclRefExpr':
            return ('v', e.get('id'))
        if k == 'MemberExpr':
            return ('f', show(e))
        if k == 'ArraySubscriptExpr' and const_of(e['i']) is not None:
            b = self.key_of(e['b'])
            return ('a', b, const_of(e['i'])) if b else None
        return None

    def table_values(self, base):
        """element values of a constant table / local array with a folded initialiser"""
        b = strip(base)
        name = None
        if b.get('k') == 'DeclRefExpr':
            name = b.get('n')
            g = None
            for (n, l), gg in self.facts.globals.items():
                if n == name:
                    g = gg
            if g is not None and 'init' in g:
                flat = []
                def fl(x):
                    if isinstance(x, list):
                        for y in x:
                            fl(y)
                    elif isinstance(x, (int, float)):
                        flat.append(x)
                    elif isinstance(x, dict) and 'filler' in x:
                        fl(x['filler'])
                    else:
                        flat.append(None)
                fl(g['init'])
                if flat and all(isinstance(x, (int, float)) for x in flat):
                    return flat
            if ('init', b.get('id')) in self.local_inits:
                return self.local_inits[('init', b.get('id'))]
        return None

    def ev(self, e, st):
        """abstract value of expression e (converted to its outer type)"""
        if e is None:
            return None
        v = self.ev_inner(e, st)
        ot = e.get('ot') or e.get('t')
        if v is None:
            return trange(ot)
        if e.get('ot') and e.get('t') and e['ot'].get('s') != e['t'].get('s'):
            return convert(v, e['ot'])
        return v

    def ev_inner(self, e, st):
        k = e.get('k')
        t = e.get('t') or {}
        if 'c' in e and k not in ('CallExpr', 'CXXMemberCallExpr', 'CXXOperatorCallExpr'):
            return V(e['c'], e['c'])
        if 'fc' in e and k in ('FloatingLiteral',):
            return V(e['fc'], e['fc'], True)
        if k == 'DeclRefExpr':
            key = ('v', e.get('id'))
            cd = self._copy_def(e.get('id')) if getattr(self, 'fn', None) is not None and key in st.env else None
            if cd is not None:
                v = self.ev(cd, st)
                if v is not None:
                    return v
            if key in st.env and st.env[key] is not None:
                return st.env[key]
            if 'fc' in e:
                return V(e['fc'], e['fc'], True)
            r = trange(t)
            if r is not None and e.get('parm'):
                r.inp = True
            return r
        if k == 'MemberExpr':
            key = ('f', show(e))
            if key in st.env and st.env[key] is not None:
                return st.env[key]
            fr = self.field_ranges.get(e.get('n'))
            r = trange(t)
            if fr is None and r is not None and self.optimistic and not r.f:
                r.vf = frozenset(self.min_sizes)
            if fr is not None and r is not None:
                return V(max(fr.lo, r.lo), min(fr.hi, r.hi), r.f, fr.inp, fr.vf) if not r.f else V(fr.lo, fr.hi, True, fr.inp)
            return r
        if k in ('BinaryOperator', 'CompoundAssignOperator'):
            return self.binop(e, st)
        if k == 'UnaryOperator':
            op = e['op']
            x = self.ev(e['e'], st)
            if op == '-' and x is not None:
                return convert(V(-x.hi, -x.lo, x.f, x.inp), t)
            if op == '+':
                return x
            if op == '!':
                c = self.cond(e['e'], st)
                return V(0, 0) if c is True else (V(1, 1) if c is False else V(0, 1))
            if op == '~' and x is not None and not x.f:
                return convert(V(~x.hi, ~x.lo, False, x.inp), t)
            if op in ('++', '--') and x is not None:
                d = 1 if op == '++' else -1
                return x if e.get('post') else convert(V(x.lo + d, x.hi + d, x.f, x.inp), t)
            if op == '*':
                r = trange(t)
                if r is not None:
                    ro = root_object(e['e'])
                    if ro is not None and ro.get('k') == 'DeclRefExpr' and not ro.get('glob'):
                        r.inp = True        # memory behind a local / parameter pointer: external data
                return r
            return trange(t)
        if k == 'ArraySubscriptExpr':
            tv = self.table_values(e['b'])
            idx = self.ev(e['i'], st)
            if tv is not None:
                if idx is not None and not idx.f:
                    lo = max(0, int(idx.lo)); hi = min(len(tv) - 1, int(idx.hi))
                    sel = tv[lo:hi + 1] if lo <= hi else tv
                else:
                    sel = tv
                if sel and all(isinstance(x, (int, float)) for x in sel):
                    isf = any(isinstance(x, float) for x in sel)
                    return V(min(sel), max(sel), isf, bool(idx and idx.inp))
            key = self.key_of(e)
            if key and key in st.env and st.env[key] is not None:
                return st.env[key]
            r = trange(t)
            if r is not None:
                # elements of a member array: field range of the array member
                b = strip(e['b'])
                if b.get('k') == 'MemberExpr':
                    fr = self.field_ranges.get(b.get('n'))
                    if fr is not None and not r.f:
                        return V(max(fr.lo, r.lo), min(fr.hi, r.hi))
                ro = root_object(e['b'])
                if ro is not None and ro.get('k') == 'DeclRefExpr' and ro.get('t', {}).get('p') and not ro.get('glob'):
                    r.inp = True            # element behind a local / parameter pointer: external data
            return r
        if k == 'ConditionalOperator':
            c = self.cond(e['cnd'], st)
            if c is True:
                return self.ev(e['l'], st)
            if c is False:
                return self.ev(e['r'], st)
            s1, s2 = st.copy(), st.copy()
            self.refine(e['cnd'], True, s1)
            self.refine(e['cnd'], False, s2)
            a, b = self.ev(e['l'], s1), self.ev(e['r'], s2)
            if a is None or b is None:
                return trange(t)
            return a.join(b)
        if k and k.endswith('CastExpr') and 'e' in e:
            x = self.ev(e['e'], st)
            return convert(x, t)
        if k == 'UnaryExprOrTypeTraitExpr' and 'c' in e:
            return V(e['c'], e['c'])
        if 'callee' in e or 'callee_e' in e:
            return self.call(e, st)
        if k == 'CXXBoolLiteralExpr' and 'c' in e:
            return V(e['c'], e['c'])
        return trange(t)

    def binop(self, e, st):
        op = e['op']
        t = e.get('ct') or e.get('t') or {}
        if op in ('=',):
            return self.ev(e['r'], st)
        if op in ('&&', '||', '<', '>', '<=', '>=', '==', '!='):
            c = self.cond(e, st)
            return V(1, 1) if c is True else (V(0, 0) if c is False else V(0, 1))
        if op == ',':
            return self.ev(e['r'], st)
        base = op[:-1] if (op.endswith('=') and op not in ('<=', '>=', '==', '!=')) else op
        l, r = self.ev(e['l'], st), self.ev(e['r'], st)
        if l is None or r is None:
            return trange(t)
        rt = trange(t)
        if rt is None:
            return None
        if base in ('+', '-', '*', '/') and (rt.f or l.f or r.f):
            lf = (float(l.lo), float(l.hi)); rf = (float(r.lo), float(r.hi))
            try:
                if base == '+':
                    res = (lf[0] + rf[0], lf[1] + rf[1])
                elif base == '-':
                    res = (lf[0] - rf[1], lf[1] - rf[0])
                elif base == '*':
                    c = [a * b for a in lf for b in rf if not (math.isinf(a) and b == 0) and not (math.isinf(b) and a == 0)]
                    res = (min(c), max(c)) if c else (-INFTY, INFTY)
                else:
                    if rf[0] <= 0 <= rf[1]:
                        res = (-INFTY, INFTY)
                    else:
                        c = [a / b for a in lf for b in rf]
                        res = (min(c), max(c))
            except (OverflowError, ValueError):
                res = (-INFTY, INFTY)
            v = V(res[0], res[1], True, l.inp or r.inp)
            return v if rt.f else convert(v, t)
        inp = l.inp or r.inp
        if l.f or r.f:
            return V(rt.lo, rt.hi, rt.f, inp)
        # operands are converted to the operator type first (usual arithmetic conversions)
        if base not in ('<<', '>>'):
            l = convert(l, t) if t.get('w') else l
            r = convert(r, t) if t.get('w') else r
        lo = hi = None
        if base == '+':
            lo, hi = l.lo + r.lo, l.hi + r.hi
        elif base == '-':
            lo, hi = l.lo - r.hi, l.hi - r.lo
        elif base == '*':
            c = [l.lo * r.lo, l.lo * r.hi, l.hi * r.lo, l.hi * r.hi]
            lo, hi = min(c), max(c)
        elif base == '/':
            if r.lo <= 0 <= r.hi:
                self.div_obl.append((e.get('ln'), show(e), r, inp))
                return V(rt.lo, rt.hi, False, inp)
            c = [int(a / b) for a in (l.lo, l.hi) for b in (r.lo, r.hi)]
            lo, hi = min(c), max(c)
            if l.lo < 0 < l.hi:
                lo, hi = min(lo, 0), max(hi, 0)
        elif base == '%':
            if r.lo <= 0 <= r.hi:
                self.div_obl.append((e.get('ln'), show(e), r, inp))
                return V(rt.lo, rt.hi, False, inp)
            m = max(abs(r.lo), abs(r.hi))
            if l.lo >= 0:
                lo, hi = 0, min(l.hi, m - 1)
            else:
                lo, hi = -(m - 1), (m - 1) if l.hi > 0 else 0
        elif base == '&':
            if l.lo >= 0 and r.lo >= 0:
                lo, hi = 0, min(l.hi, r.hi)
            elif r.lo >= 0:
                lo, hi = 0, r.hi
            elif l.lo >= 0:
                lo, hi = 0, l.hi
            else:
                lo, hi = rt.lo, rt.hi
        elif base in ('|', '^'):
            if l.lo >= 0 and r.lo >= 0:
                m = max(l.hi, r.hi)
                lo, hi = (max(l.lo, r.lo) if base == '|' else 0), (1 << m.bit_length()) - 1
            else:
                lo, hi = rt.lo, rt.hi
        elif base == '<<':
            if r.lo >= 0 and r.hi < 64 and l.lo >= 0:
                lo, hi = l.lo << r.lo, l.hi << r.hi
            else:
                lo, hi = rt.lo, rt.hi
        elif base == '>>':
            if r.lo >= 0 and r.hi < 64 and l.lo >= 0:
                lo, hi = l.lo >> r.hi, l.hi >> r.lo
            elif r.lo >= 0 and r.hi < 64:
                lo, hi = min(l.lo >> r.lo, l.lo >> r.hi), max(l.hi >> r.lo, l.hi >> r.hi)
            else:
                lo, hi = rt.lo, rt.hi
        else:
            return V(rt.lo, rt.hi, False, inp)
        if lo < rt.lo or hi > rt.hi:
            if t.get('u'):
                cv = convert(V(lo, hi), t) if t.get('w') else None      # wraps; exact when the whole range wraps by the same offset
                lo, hi = (cv.lo, cv.hi) if cv is not None else (rt.lo, rt.hi)
            else:
                lo, hi = max(lo, rt.lo), min(hi, rt.hi)   # signed overflow is undefined: results that exist are inside the type
                if lo > hi:
                    lo, hi = rt.lo, rt.hi
        return V(lo, hi, False, inp)

    MONO = {'log': math.log, 'sqrt': math.sqrt, 'exp': math.exp, 'floor': math.floor, 'ceil': math.ceil, 'round': round, 'log10': math.log10,
            'std::log': math.log, 'std::sqrt': math.sqrt, 'std::exp': math.exp, 'std::floor': math.floor, 'std::ceil': math.ceil, 'fabs': abs}

    def call(self, e, st):
        name = e.get('callee', '')
        sn = short(name)
        t = e.get('t') or {}
        args = e.get('a', [])
        if name in ('std::min', 'std::max') and len(args) == 2:
            a, b = self.ev(args[0], st), self.ev(args[1], st)
            if a is not None and b is not None:
                if sn == 'min':
                    return V(min(a.lo, b.lo), min(a.hi, b.hi), a.f or b.f, a.inp or b.inp)
                return V(max(a.lo, b.lo), max(a.hi, b.hi), a.f or b.f, a.inp or b.inp)
        if (name in self.MONO or sn in self.MONO) and len(args) == 1:
            x = self.ev(args[0], st)
            fn = self.MONO.get(name) or self.MONO.get(sn)
            if x is not None:
                try:
                    if sn in ('log', 'log10', 'sqrt') and x.lo <= 0:
                        lo = -INFTY if sn != 'sqrt' else 0.0
                        if x.hi <= 0:
                            return V(-INFTY, INFTY, True, x.inp) if sn != 'sqrt' else V(0.0, 0.0, True, x.inp)
                    else:
                        lo = float(fn(x.lo)) if not math.isinf(x.lo) else (x.lo if sn not in ('exp',) else 0.0)
                    hi = float(fn(x.hi)) if not math.isinf(x.hi) else x.hi
                    if sn == 'fabs':
                        lo, hi = (0.0 if x.lo <= 0 <= x.hi else min(abs(x.lo), abs(x.hi))), max(abs(x.lo), abs(x.hi))
                    return V(lo, hi, True, x.inp)
                except (ValueError, OverflowError):
                    return V(-INFTY, INFTY, True, x.inp)
        if sn == 'size' and e.get('obj') is not None:
            o = strip(e['obj'])
            nm = short(o.get('n', '')) if o.get('k') == 'MemberExpr' else None
            r = trange(t) or V(0, (1 << 64) - 1)
            r.hi = min(r.hi, 1 << 48)        # assumption: no container holds 2^48 or more elements
            if nm in self.min_sizes:
                return V(self.min_sizes[nm], r.hi)
            return r
        # user function with a body: evaluate with the argument ranges (depth-limited)
        avals = self._record_call(e, st)
        ie = inline_expr(self.facts, e)
        if ie is not None:
            # a helper that is one formula: read as the formula, with its parameters as fresh variables holding the argument values
            s2 = st.copy()
            for (p_, a_), av in zip(ie[1], avals):
                if av is not None:
                    s2.env[('v', p_['id'])] = convert(av, p_['t']) if trange(p_['t']) else av
                else:
                    s2.env.pop(('v', p_['id']), None)
            r = self.ev(ie[0], s2)
            if r is not None:
                return r
        sm = getattr(self, 'summaries', None)
        if sm and (name in sm or sn in sm):
            r = (sm.get(name) or sm.get(sn))(self, e, avals)
            if r is not None:
                return r
        fl = self.facts.fns.get(name) if name else None
        if fl and self.depth < 2 and len(fl[0].d['blocks']) <= 40 and trange(fl[0].d['ret']) is not None:
            cf = fl[0]
            sub = Engine2(self.facts, self.field_ranges, self.min_sizes, self.param_ranges, resizers=self.resizers)
            sub.optimistic = self.optimistic
            sub.depth = self.depth + 1
            s0 = St()
            for p, a, ae in zip(cf.params, avals, args):
                if a is not None:
                    s0.env[('v', p['id'])] = convert(a, p['t']) if trange(p['t']) else a
                cont = self.size_container(ae, st)
                if cont and (p['t'] or {}).get('w') == 64 and not (p['t'] or {}).get('ref'):
                    s0.facts.add(('is_size', ('v', p['id']), cont))
            try:
                sub.run(cf, s0, record=False)
            except RecursionError:
                return trange(t)
            rv = None
            for v in sub.returns:
                rv = v if rv is None else rv.join(v)
            if rv is not None:
                return rv
        r = trange(t)
        return r

    def _record_call(self, e, st):
        """argument values (and size facts) of a call site, remembered for the call-site join of parameter ranges"""
        name = e.get('callee', '')
        args = e.get('a', [])
        avals = [self.ev(a, st) for a in args]
        if name and self.depth == 0:
            afacts = []
            for a, v in zip(args, avals):
                fs = set()
                k2 = None
                e2 = a
                while isinstance(e2, dict) and k2 is None:
                    k2 = self.key_of(e2)
                    if k2 is None and e2.get('k', '').endswith('CastExpr') and 'e' in e2:
                        e2 = e2['e']
                    else:
                        break
                for cont, ms in self.min_sizes.items():
                    if (k2 is not None and ('lt_size', k2, cont) in st.facts) or (v is not None and not v.f and v.lo >= 0 and v.hi <= ms - 1) \
                            or (v is not None and v.vf and cont in v.vf):
                        fs.add(cont)
                afacts.append(fs)
            self.calls.append((name, avals, afacts))
        return avals

    # ------------------------------------------------------------------ conditions
    def cond(self, c, st):
        c = strip_keep(c)
        if c is None:
            return None
        k = c.get('k')
        if 'c' in c and k not in ('DeclRefExpr', 'CallExpr', 'CXXMemberCallExpr'):
            return bool(c['c'])
        if k == 'UnaryOperator' and c['op'] == '!':
            v = self.cond(c['e'], st)
            return None if v is None else (not v)
        if k == 'BinaryOperator':
            op = c['op']
            if op == '&&':
                l = self.cond(c['l'], st)
                if l is False:
                    return False
                s2 = st.copy(); self.refine(c['l'], True, s2)
                r = self.cond(c['r'], s2)
                if r is False:
                    return False
                return True if (l is True and r is True) else None
            if op == '||':
                l = self.cond(c['l'], st)
                if l is True:
                    return True
                s2 = st.copy(); self.refine(c['l'], False, s2)
                r = self.cond(c['r'], s2)
                if r is True:
                    return True
                return False if (l is False and r is False) else None
            if op in ('<', '>', '<=', '>=', '==', '!='):
                # relational fact x < size(X)
                l, r = self.ev(c['l'], st), self.ev(c['r'], st)
                if l is None or r is None:
                    return None
                if op == '<':
                    return True if l.hi < r.lo else (False if l.lo >= r.hi else None)
                if op == '>':
                    return True if l.lo > r.hi else (False if l.hi <= r.lo else None)
                if op == '<=':
                    return True if l.hi <= r.lo else (False if l.lo > r.hi else None)
                if op == '>=':
                    return True if l.lo >= r.hi else (False if l.hi < r.lo else None)
                if op == '==':
                    if l.is_point() and r.is_point():
                        return l.lo == r.lo
                    return False if (l.hi < r.lo or l.lo > r.hi) else None
                if op == '!=':
                    if l.is_point() and r.is_point():
                        return l.lo != r.lo
                    return True if (l.hi < r.lo or l.lo > r.hi) else None
        v = self.ev(c, st)
        if v is not None:
            if v.lo == 0 and v.hi == 0:
                return False
            if v.lo > 0 or v.hi < 0:
                return True
        return None

    def size_container(self, e, st=None):
        """name of the container if e is `X.size()` (through casts)"""
        e = strip(e)
        if st is not None and e.get('k') == 'DeclRefExpr':
            for f in st.facts:
                if f[0] == 'is_size' and f[1] == ('v', e.get('id')):
                    return f[2]
        if short(e.get('callee', '')) == 'size' and e.get('obj') is not None:
            o = strip(e['obj'])
            if o.get('k') == 'MemberExpr':
                return short(o['n'])
            if o.get('k') == 'DeclRefExpr':
                return short(o['n'])
        return None

    def _bool_def(self, vid):
        """initialiser of a local that is defined once, never reassigned, and whose initialiser reads only constants and variables
        that are never written in this function (so it still says the same thing wherever the local is tested)"""
        fn = self.fn
        c = getattr(fn, '_e2_booldefs', None)
        if c is None:
            sd = single_defs(fn.d)
            assigned = set()
            for b in fn.d['blocks']:
                for st_ in b['stmts']:
                    for x in walk(st_['s']):
                        tgt = None
                        ap = assign_parts_raw(x)
                        if ap:
                            tgt = ap[0]
                        elif is_incdec(x) or (x.get('k') == 'UnaryOperator' and x.get('op') == '&'):
                            tgt = x['e']
                        if tgt is not None and strip(tgt).get('k') == 'DeclRefExpr':
                            assigned.add(strip(tgt)['id'])
            fn._e2_assigned = assigned
            c = {}
            for i, e in sd.items():
                if not (e.get('t') or {}).get('bool') and strip(e).get('k') not in ('BinaryOperator', 'UnaryOperator'):
                    continue
                pure = all(not ('callee' in y or y.get('k') in ('MemberExpr', 'ArraySubscriptExpr') or (y.get('k') == 'UnaryOperator' and y.get('op') in ('*', '++', '--')))
                           for y in walk(e))
                stable = all(y.get('id') not in assigned for y in walk(e) if y.get('k') == 'DeclRefExpr' and 'c' not in y)
                if pure and stable:
                    c[i] = e
            fn._e2_booldefs = c
        return c.get(vid)

    def subexprs(self, e, st):
        """(node, state) for every sub-expression of e, the state being the one the node is evaluated in: the right operand of && / ||
        and the arms of ?: under the facts their evaluation implies (value hooks that judge a sub-expression use this instead of a
        plain walk)"""
        if isinstance(e, list):
            for y in e:
                yield from self.subexprs(y, st)
            return
        if not isinstance(e, dict):
            return
        yield e, st
        k = e.get('k')
        if k == 'BinaryOperator' and e.get('op') in ('&&', '||'):
            yield from self.subexprs(e['l'], st)
            s2 = st.copy()
            self.refine(e['l'], e['op'] == '&&', s2)
            yield from self.subexprs(e['r'], s2)
            return
        if k == 'ConditionalOperator':
            yield from self.subexprs(e['cnd'], st)
            s1, s2 = st.copy(), st.copy()
            self.refine(e['cnd'], True, s1); self.refine(e['cnd'], False, s2)
            yield from self.subexprs(e['l'], s1)
            yield from self.subexprs(e['r'], s2)
            return
        for kk, v in e.items():
            if kk in ('t', 'ot', 'ct'):
                continue
            if isinstance(v, (dict, list)):
                yield from self.subexprs(v, st)

    def _copy_def(self, vid):
        """initialiser of a local that is defined once as a (cast of a) variable which this function never writes, and is never
        reassigned itself: `const unsigned requested = static_cast<unsigned>(numChips);`.  Such a local is read as its initialiser
        under the CURRENT state, so that what later tests establish about either name holds for both."""
        self._bool_def(-1)      # fills the caches
        fn = self.fn
        c = getattr(fn, '_e2_copydefs', None)
        if c is None:
            sd = single_defs(fn.d)
            assigned = fn._e2_assigned
            c = {}
            for i, e in sd.items():
                if i in assigned:
                    continue
                x = e
                while isinstance(x, dict) and (x.get('k', '').endswith('CastExpr') or x.get('k') in ('ParenExpr',)) and 'e' in x:
                    x = x['e']
                if isinstance(x, dict) and x.get('k') == 'DeclRefExpr' and not x.get('fn') and 'c' not in x and x.get('id') not in assigned and x.get('id') != i \
                        and not (x.get('t') or {}).get('p') and not (x.get('t') or {}).get('ref') and (x.get('t') or {}).get('w'):
                    c[i] = e
            fn._e2_copydefs = c
        return c.get(vid)

    def refine(self, c, pol, st, depth=0):
        c = strip_keep(c)
        if c is None:
            return
        k = c.get('k')
        if k == 'UnaryOperator' and c['op'] == '!':
            return self.refine(c['e'], not pol, st)
        if k == 'BinaryOperator' and c['op'] == '&&':
            if pol:
                self.refine(c['l'], True, st); self.refine(c['r'], True, st)
            return
        if k == 'BinaryOperator' and c['op'] == '||':
            if not pol:
                self.refine(c['l'], False, st); self.refine(c['r'], False, st)
            return
        if k == 'BinaryOperator' and c['op'] in ('<', '>', '<=', '>=', '==', '!='):
            op = c['op']
            if not pol:
                op = {'<': '>=', '>=': '<', '>': '<=', '<=': '>', '==': '!=', '!=': '=='}[op]
            self._refine_side(c['l'], op, c['r'], st)
            self._refine_side(c['r'], {'<': '>', '>': '<', '<=': '>=', '>=': '<=', '==': '==', '!=': '!='}[op], c['l'], st)
            return
        # truthiness of a variable
        key = self.key_of(c)
        if key is not None and key[0] == 'v' and depth < 3:
            d = self._bool_def(key[1])
            if d is not None:
                self.refine(d, pol, st, depth + 1)      # a named condition: `const bool ok = a && b; if(!ok) return;`
        if key is not None:
            cur = self.ev_inner(c, st)      # the variable's own value, not its conversion to bool
            if cur is not None and not cur.f:
                if pol and cur.lo == 0 and cur.hi >= 1:
                    st.env[key] = V(1, cur.hi, False, cur.inp)
                if not pol:
                    st.env[key] = V(0, 0, False, cur.inp)

    def _refine_side(self, x, op, other, st):
        """x op other holds: narrow x when it is a variable seen through value-preserving casts"""
        xs = x
        # peel casts that preserve the value of the current range
        key = None
        e = x
        while True:
            key = self.key_of(e)
            if key is not None and key[0] == 'v' and getattr(self, 'fn', None) is not None and self._copy_def(key[1]) is not None and key in st.env:
                e = self._copy_def(key[1])
                continue
            if key is not None:
                break
            e2 = e
            if e.get('k', '').endswith('CastExpr') and 'e' in e:
                e2 = e['e']
            if e2 is e:
                return
            e = e2
        cur = self.ev(e, st)
        if cur is None or cur.f:
            return
        # value must survive the conversion to the comparison type unchanged
        ot = x.get('ot') or x.get('t')
        conv = convert(cur, ot) if ot and trange(ot) and not trange(ot).f else cur
        if conv is None or conv.lo != cur.lo or conv.hi != cur.hi:
            return
        cont = self.size_container(other, st)
        o = self.ev(other, st)
        if o is None or o.f:
            return
        lo, hi = cur.lo, cur.hi
        if op == '<':
            hi = min(hi, o.hi - 1)
            if cont:
                st.facts.add(('lt_size', key, cont))
        elif op == '<=':
            hi = min(hi, o.hi)
        elif op == '>':
            lo = max(lo, o.lo + 1)
        elif op == '>=':
            lo = max(lo, o.lo)
        elif op == '==':
            lo, hi = max(lo, o.lo), min(hi, o.hi)
        elif op == '!=':
            if o.is_point():
                if lo == o.lo:
                    lo += 1
                if hi == o.lo:
                    hi -= 1
        if lo > hi:
            lo, hi = cur.lo, cur.hi      # infeasible edge: keep the old value (path will be dropped by cond())
        st.env[key] = V(lo, hi, False, cur.inp)

    # ------------------------------------------------------------------ obligations
    def check_expr(self, e, st):
        if not self.record:
            return
        self._check(e, st)
        for h in self.value_hooks:
            h(self, e, st)

    def _check(self, e, st):
        """obligations of e; operands of && || ?: are checked under the facts their evaluation implies"""
        if isinstance(e, list):
            for x in e:
                self._check(x, st)
            return
        if not isinstance(e, dict):
            return
        k = e.get('k')
        if k == 'BinaryOperator' and e.get('op') in ('&&', '||'):
            self._check(e['l'], st)
            s2 = st.copy()
            self.refine(e['l'], e['op'] == '&&', s2)
            self._check(e['r'], s2)
            return
        if k == 'ConditionalOperator':
            self._check(e['cnd'], st)
            s1, s2 = st.copy(), st.copy()
            self.refine(e['cnd'], True, s1); self.refine(e['cnd'], False, s2)
            self._check(e['l'], s1); self._check(e['r'], s2)
            return
        self._check_node(e, st)
        for kk, v in e.items():
            if kk in ('t', 'ot', 'ct', 'pt', 'argt', 'newt'):
                continue
            if isinstance(v, (dict, list)):
                self._check(v, st)

    def _check_node(self, x, st):
        # floating -> integer conversions: the operand must be representable (negative -> unsigned is undefined)
        k0 = x.get('k', '')
        src = None
        if k0.endswith('CastExpr') and 'e' in x and (x.get('t') or {}).get('w') and not (x.get('t') or {}).get('f') and not (x.get('t') or {}).get('bool'):
            it = x['e'].get('ot') or x['e'].get('t') or {}
            if it.get('f'):
                src, tt = x['e'], x['t']
        elif (x.get('t') or {}).get('f') and (x.get('ot') or {}).get('w') and not (x.get('ot') or {}).get('f') and not (x.get('ot') or {}).get('bool'):
            src, tt = dict(x, ot=x.get('t')), x['ot']
        if src is not None:
            v = self.ev(src, st)
            r = trange(tt)
            ok = v is not None and r is not None and v.lo > r.lo - 1 and v.hi < r.hi + 1
            self.obl.append(Obligation2(self.fn.name, x.get('ln'), 'convert %s to %s' % (show(src)[:60], tt.get('s')), v, '[%s, %s]' % (r.lo, r.hi) if r else '?', ok,
                                        True, kind='fcast'))
        for x in (x,):
            k = x.get('k')
            ext_alias = None
            if k == 'ArraySubscriptExpr' and 'ext' not in x and strip(x.get('b') or {}).get('k') == 'DeclRefExpr':
                # a pointer local that names a fixed-size array (`T *const regs = rec.data;`, never reassigned): the subscript is one of the array
                al = getattr(self.fn, '_e2_alias', None)
                if al is None:
                    al = alias_defs(self.fn.d)
                    self.fn._e2_alias = al
                d0 = al.get(strip(x['b']).get('id'))
                t0 = (strip(d0).get('t') or {}) if d0 is not None else {}
                t1 = (strip(d0).get('ot') or {}) if d0 is not None else {}
                for tt_ in (t0, t1, (d0 or {}).get('ot') or {}, (d0 or {}).get('t') or {}):
                    if tt_.get('arr'):
                        ext_alias = tt_['arr']
                        break
            if k == 'ArraySubscriptExpr' and ('ext' in x or ext_alias is not None):
                idx = self.ev(x['i'], st)
                ext = x['ext'] if 'ext' in x else ext_alias
                ok = idx is not None and not idx.f and idx.lo >= 0 and idx.hi <= ext - 1
                self.obl.append(Obligation2(self.fn.name, x.get('ln'), show(x), idx, ext, ok, bool(idx is not None and idx.inp)))
            elif k == 'CXXOperatorCallExpr' and short(x.get('callee', '')) == 'operator[]' and len(x.get('a', [])) == 2:
                base = strip(x['a'][0])
                nm = short(base.get('n', '')) if base.get('k') == 'MemberExpr' else None
                if nm in self.min_sizes:
                    ie = x['a'][1]
                    idx = self.ev(ie, st)
                    key = None
                    e2 = ie
                    while key is None and isinstance(e2, dict):
                        key = self.key_of(e2)
                        if key is None and e2.get('k', '').endswith('CastExpr') and 'e' in e2:
                            e2 = e2['e']
                        else:
                            break
                    ok = False
                    why = ''
                    if key is not None and ('lt_size', key, nm) in st.facts:
                        ok = True
                    elif idx is not None and not idx.f and idx.lo >= 0 and idx.hi <= self.min_sizes[nm] - 1:
                        ok = True
                    elif idx is not None and idx.lt and nm in idx.lt:
                        ok = True           # the index is the value a helper returned with `< size` established
                    validated = bool(idx is not None and idx.vf and nm in idx.vf)
                    self.obl.append(Obligation2(self.fn.name, x.get('ln'), show(x), idx, 'size(%s)>=%d' % (nm, self.min_sizes[nm]), ok,
                                                bool(idx is not None and idx.inp) and not validated, kind='vector'))

    def _mentions_param(self, e):
        return mentions(e, lambda y: y.get('k') == 'DeclRefExpr' and y.get('parm'))

    # ------------------------------------------------------------------ statements
    def _validated(self, e, v, st):
        out = set(v.vf or ())
        k2 = None
        e2 = e
        while isinstance(e2, dict) and k2 is None:
            k2 = self.key_of(e2)
            if k2 is None and e2.get('k', '').endswith('CastExpr') and 'e' in e2:
                e2 = e2['e']
            else:
                break
        for cont, ms in self.min_sizes.items():
            if (k2 is not None and ('lt_size', k2, cont) in st.facts) or (v is not None and not v.f and v.lo >= 0 and v.hi <= ms - 1):
                out.add(cont)
        return out

    def _lt_now(self, e, v, st):
        out = set(v.lt or ())
        k2 = None
        e2 = e
        while isinstance(e2, dict) and k2 is None:
            k2 = self.key_of(e2)
            if k2 is None and e2.get('k', '').endswith('CastExpr') and 'e' in e2:
                cv = self.ev(e2['e'], st)
                if cv is None or cv.f or cv.lo != v.lo or cv.hi != v.hi:
                    break           # the cast may change the value
                e2 = e2['e']
            else:
                break
        for cont, ms in self.min_sizes.items():
            if (k2 is not None and ('lt_size', k2, cont) in st.facts) or (not v.f and v.lo >= 0 and v.hi <= ms - 1):
                out.add(cont)
        return out

    def flush(self, st):
        """make pending member stores visible (function exit, or before a call that may read the member)"""
        if not st.pend:
            return
        for key, (fld, val, ln) in list(st.pend.items()):
            cur = st.env.get(key)
            if cur is not None and not cur.f and not val.f:
                lo, hi = max(val.lo, cur.lo), min(val.hi, cur.hi)
                if lo <= hi:
                    val = V(lo, hi, val.f, val.inp, val.vf)
            self.stores.append((fld, val, self.fn.name, ln))
        st.pend = {}

    def assign_to(self, tgt, val, st, op='=', rhs_expr=None):
        t = strip_keep(tgt)
        key = self.key_of(t)
        tt = t.get('t') or {}
        if val is not None and trange(tt) is not None:
            val = convert(val, tt)
        if t.get('k') == 'MemberExpr':
            same_field_copy = rhs_expr is not None and strip(rhs_expr).get('k') == 'MemberExpr' and strip(rhs_expr).get('n') == t.get('n')
            if val is not None and self.record_stores and not same_field_copy:     # `x = other.x` introduces no new value of the field
                val = V(val.lo, val.hi, val.f, val.inp, frozenset(self._validated(rhs_expr, val, st)) if rhs_expr is not None else val.vf)
                # the store becomes visible to other functions at the next call or at function exit; a later store to the same path
                # (e.g. the clamp `if(x < 0) x = 0;`) replaces it, a branch condition on the member narrows it
                st.pend[('f', show(t))] = (t.get('n'), val, t.get('ln'))
            # a store to a member invalidates every cached path ending in the same field
            fld = short(t.get('n', ''))
            for k2 in [k2 for k2 in st.env if k2[0] == 'f' and (k2[1].endswith('.' + fld) or k2[1].endswith('->' + fld) or k2[1] == fld)]:
                del st.env[k2]
        if t.get('k') == 'ArraySubscriptExpr':
            b = strip(t['b'])
            if b.get('k') == 'MemberExpr' and val is not None and self.record_stores:
                self.stores.append((b.get('n'), val, self.fn.name, t.get('ln')))
            if key is None:
                bk = self.key_of(t['b'])
                for k2 in [k2 for k2 in st.env if k2[0] == 'a' and k2[1] == bk]:
                    del st.env[k2]
                return
        if key is None:
            return
        st.facts = {f for f in st.facts if f[1] != key}
        if val is None:
            st.env.pop(key, None)
        else:
            st.env[key] = val
            if val.lt:
                if key[0] == 'v' and op == '=':
                    for c in val.lt:
                        st.facts.add(('lt_size', key, c))
                st.env[key] = V(val.lo, val.hi, val.f, val.inp, val.vf)     # the relation lives in the facts from here on

    def exec_expr(self, e, st):
        self.check_expr(e, st)
        self._effects(e, st)

    def _effects(self, e, st):
        """apply assignments / inc / dec in evaluation order (inner first)"""
        if isinstance(e, list):
            for x in e:
                self._effects(x, st)
            return
        if not isinstance(e, dict):
            return
        k = e.get('k')
        if k == 'ConditionalOperator' or (k == 'BinaryOperator' and e.get('op') in ('&&', '||')):
            # effects in conditionally evaluated operands: join
            s1 = st.copy()
            for kk in ('cnd', 'l', 'r'):
                if kk in e:
                    self._effects(e[kk], s1)
            j = join_states(st, s1, self.min_sizes)
            st.env, st.facts = j.env, j.facts
            return
        ap = assign_parts_raw(e)
        for kk, v in e.items():
            if kk in ('t', 'ot', 'ct', 'pt'):
                continue
            if isinstance(v, (dict, list)):
                self._effects(v, st)
        if ap:
            tgt, rhs, op = ap
            if op == '=':
                self.assign_to(tgt, self.ev(rhs, st), st, rhs_expr=rhs)
            else:
                self.assign_to(tgt, self.binop(e, st) if e.get('k') == 'CompoundAssignOperator' else None, st, op)
        elif is_incdec(e):
            x = self.ev(e['e'], st)
            d = 1 if e['op'] == '++' else -1
            tt = strip_keep(e['e']).get('t') or {}
            nv = None
            if x is not None and not x.f:
                r = trange(tt)
                nv = V(x.lo + d, x.hi + d, False, x.inp)
                if r is not None and (nv.lo < r.lo or nv.hi > r.hi):
                    nv = V(r.lo, r.hi, False, x.inp)
            self.assign_to(e['e'], nv, st)
        elif 'callee' in e or 'callee_e' in e:
            if self.record_stores and not (e.get('callee', '') in ('std::min', 'std::max') or short(e.get('callee', '')) in self.MONO or e.get('cmeth')):
                self.flush(st)
            if e.get('callee') and not trange(e.get('t') or {}):
                self._record_call(e, st)       # value-returning calls are recorded when they are evaluated
            # non-const calls may change members reached through the object; by-reference arguments are havocked
            for a, pt in zip(e.get('a', []), e.get('pt', [])):
                if pt.get('ref') and not pt.get('const'):
                    key = self.key_of(a)
                    if key is not None:
                        st.env.pop(key, None)
                a2 = strip(a)
                if a2.get('k') == 'UnaryOperator' and a2.get('op') == '&':
                    key = self.key_of(a2['e'])
                    if key is not None:
                        st.env.pop(key, None)
            if not e.get('cmeth') and e.get('k') in ('CXXMemberCallExpr',) and short(e.get('callee', '')) not in ('size', 'empty', 'begin', 'end', 'find', 'get', 'is_end', 'operator[]', 'c_str', 'data', 'capacity'):
                obj = strip(e.get('obj') or {})
                if obj.get('k') == 'CXXThisExpr' or (obj.get('k') == 'DeclRefExpr') or obj.get('k') == 'MemberExpr':
                    # member state may change: drop cached member paths
                    for k2 in [k2 for k2 in st.env if k2[0] == 'f']:
                        del st.env[k2]
                    nm = short(obj.get('n', '')) if obj.get('k') == 'MemberExpr' else None
                    if nm:
                        st.facts = {f for f in st.facts if f[2] != nm}
                    elif obj.get('k') == 'CXXThisExpr':
                        if self.resizers is None:
                            st.facts = set()
                        else:
                            cn = e.get('callee', '')
                            st.facts = {f for f in st.facts if cn not in self.resizers.get(f[2], ())}

    def run(self, fn, st=None, record=True, record_stores=False):
        self.fn = fn
        self.record = record
        self.record_stores = record_stores
        self.local_inits = {}
        self.goto_states = {}
        self.labels_seen = set()
        st = st or St()
        for i, p in enumerate(fn.params):
            key = ('v', p['id'])
            if key not in st.env:
                pr = self.param_ranges.get((fn.name, i))
                if pr is not None:
                    v, conts = pr
                    st.env[key] = V(v.lo, v.hi, v.f, v.inp)
                    for c in conts:
                        st.facts.add(('lt_size', key, c))
        outs, exits = self.stmt(fn.tree, st)
        if outs is not None and self.record_stores:
            self.flush(outs)
        return outs

    def block(self, stmts, st):
        exits = []
        cur = st
        for s in stmts:
            if cur is None:
                if isinstance(s, dict) and s.get('k') == 'LabelStmt' and self.goto_states.get(s.get('label')):
                    gs = self.goto_states.pop(s['label'])
                    cur = None
                    for g in gs:
                        cur = join_states(cur, g, self.min_sizes)
                    self.labels_seen.add(s['label'])
                    cur, ex = self.stmt(s.get('sub'), cur)
                    exits += ex
                    continue
                continue
            cur, ex = self.stmt(s, cur)
            exits += ex
        return cur, exits

    def stmt(self, s, st):
        """returns (fallthrough state or None, [(kind, state)])"""
        if s is None:
            return st, []
        k = s.get('k')
        if k == 'CompoundStmt':
            return self.block(s.get('body', []), st)
        if k == 'IfStmt':
            st = st.copy()
            if s.get('cvar'):
                st, _ = self.stmt(s['cvar'], st)
            self.exec_expr(s['cond'], st)
            v = self.cond(s['cond'], st)
            outs, exits = [], []
            if v is not False:
                s1 = st.copy(); self.refine(s['cond'], True, s1)
                f, ex = self.stmt(s.get('then'), s1)
                outs.append(f); exits += ex
            if v is not True:
                s2 = st.copy(); self.refine(s['cond'], False, s2)
                f, ex = self.stmt(s.get('else'), s2) if s.get('else') is not None else (s2, [])
                outs.append(f); exits += ex
            res = None
            for o in outs:
                res = join_states(res, o, self.min_sizes) if o is not None else res
            return res, exits
        if k == 'ReturnStmt':
            st = st.copy()
            self.visited.add((s.get('ln'), k))
            if s.get('e') is not None:
                self.exec_expr(s['e'], st)
                rv = self.ev(s['e'], st)
                if rv is not None and not rv.f and self.depth > 0:
                    # the relation `returned value < X.size()` survives the return (helpers that wrap or clamp an index)
                    rv = V(rv.lo, rv.hi, rv.f, rv.inp, rv.vf, frozenset(self._lt_now(s['e'], rv, st)))
                self.returns.append(rv)
            if self.record_stores:
                self.flush(st)
            return None, [('return', st)]
        if k == 'BreakStmt':
            return None, [('break', st)]
        if k == 'ContinueStmt':
            return None, [('continue', st)]
        if k == 'DeclStmt':
            st = st.copy()
            self.visited.add((s.get('ln'), k))
            for v in s['decls']:
                key = ('v', v['id'])
                if 'init' in v:
                    self.exec_expr(v['init'], st)
                    init = strip(v['init'])
                    if init.get('k') == 'InitListExpr':
                        vals = []
                        def fl(x):
                            if x.get('k') == 'InitListExpr':
                                for y in x.get('inits', []):
                                    fl(strip(y))
                            else:
                                vals.append(x.get('c', x.get('fc')))
                        fl(init)
                        is_const = v['t'].get('const') or v['t'].get('el', {}).get('const')
                        if vals and is_const and all(isinstance(x, (int, float)) for x in vals):
                            self.local_inits[('init', v['id'])] = vals      # only constant tables: a mutable local array is not its initialiser
                        continue
                    if v.get('ref') or v['t'].get('ref'):
                        continue
                    val = self.ev(v['init'], st)
                    if val is not None and trange(v['t']) is not None:
                        st.env[key] = convert(val, v['t'])
                        if st.env[key].lt:
                            for c in st.env[key].lt:
                                st.facts.add(('lt_size', key, c))
                            cv = st.env[key]
                            st.env[key] = V(cv.lo, cv.hi, cv.f, cv.inp, cv.vf)
                    else:
                        st.env.pop(key, None)
                    cont = self.size_container(v['init'])
                    if cont and v['t'].get('w') == 64:
                        st.facts.add(('is_size', key, cont))
                else:
                    st.env.pop(key, None)
            return st, []
        if k in ('ForStmt', 'WhileStmt', 'DoStmt'):
            return self.loop(s, st)
        if k == 'SwitchStmt':
            return self.switch(s, st)
        if k == 'LabelStmt':
            # forward gotos: join the states that jumped here
            for gs in self.goto_states.pop(s.get('label'), []):
                st = join_states(st, gs, self.min_sizes)
            self.labels_seen.add(s.get('label'))
            return self.stmt(s.get('sub'), st)
        if k == 'GotoStmt':
            if s.get('label') in self.labels_seen:
                self.notes.append('backward goto to %s not modelled' % s.get('label'))
            self.goto_states.setdefault(s.get('label'), []).append(st.copy())
            return None, []
        if k in ('CaseStmt', 'DefaultStmt'):
            return self.stmt(s.get('sub'), st)
        if k in ('NullStmt', 'CXXTryStmt'):
            if k == 'CXXTryStmt':
                return self.stmt(s.get('body'), st)
            return st, []
        st = st.copy()
        self.visited.add((s.get('ln'), s.get('k')))
        self.exec_expr(s, st)
        return st, []

    def switch(self, s, st):
        st = st.copy()
        self.exec_expr(s['cond'], st)
        val = self.ev(s['cond'], st)
        body = s.get('body') or {}
        items = body.get('body', []) if body.get('k') == 'CompoundStmt' else [body]
        res = None
        exits = []
        has_default = False
        ckey = None
        e2 = s['cond']
        while isinstance(e2, dict) and ckey is None:
            ckey = self.key_of(e2)
            if ckey is None and e2.get('k', '').endswith('CastExpr') and 'e' in e2:
                e2 = e2['e']
            else:
                break
        all_labels = set()
        for it in items:
            x = it
            while isinstance(x, dict) and x.get('k') in ('CaseStmt', 'DefaultStmt'):
                if x.get('k') == 'CaseStmt' and 'value' in x:
                    all_labels.add(x['value'])
                x = x.get('sub')
        for idx, it in enumerate(items):
            labels = []
            x = it
            while isinstance(x, dict) and x.get('k') in ('CaseStmt', 'DefaultStmt'):
                labels.append(x.get('value') if x.get('k') == 'CaseStmt' else 'default')
                x = x.get('sub')
            if not labels:
                continue
            if 'default' in labels:
                has_default = True
            nums = [l for l in labels if l != 'default']
            if val is not None and not val.f:
                hit = any(val.lo <= l <= val.hi for l in nums)
                if 'default' in labels:
                    # default is taken only by values that match no explicit label of the whole switch
                    others = all_labels - set(nums)
                    uncovered = not (val.hi - val.lo < 4096 and all(v in all_labels for v in range(int(val.lo), int(val.hi) + 1)))
                    if not hit and not uncovered:
                        continue
                elif not hit:
                    continue
            s1 = st.copy()
            if ckey is not None and nums and 'default' not in labels:
                s1.env[ckey] = V(min(nums), max(nums), False, bool(val and val.inp))
            f, ex = self.block(items[idx:], s1)
            if f is not None:
                res = join_states(res, f, self.min_sizes)
            for kind, s2 in ex:
                if kind == 'break':
                    res = join_states(res, s2, self.min_sizes)
                else:
                    exits.append((kind, s2))
        if not has_default:
            res = join_states(res, st, self.min_sizes)
        return res, exits

    def _assigned(self, node):
        keys = set()
        fields = False
        for x in walk(node):
            ap = assign_parts_raw(x)
            t = ap[0] if ap else (x['e'] if is_incdec(x) else None)
            if t is not None:
                key = self.key_of(t)
                if key is not None:
                    keys.add(key)
                ts = strip(t)
                if ts.get('k') == 'ArraySubscriptExpr':
                    bk = self.key_of(ts['b'])
                    if bk:
                        keys.add(('arr', bk))
            if x.get('k') == 'DeclStmt':
                for v in x['decls']:
                    keys.add(('v', v['id']))
            if ('callee' in x or 'callee_e' in x) and not x.get('cmeth'):
                fields = True
                for a, pt in zip(x.get('a', []), x.get('pt', [])):
                    if pt.get('ref') and not pt.get('const'):
                        key = self.key_of(a)
                        if key:
                            keys.add(key)
        return keys, fields

    def loop(self, s, st):
        k = s['k']
        st = st.copy()
        if self.record_stores:
            self.flush(st)
        if k == 'ForStmt' and s.get('init') is not None:
            st, _ = self.stmt(s['init'], st)
            if st is None:
                return None, []
        cond, inc, body = s.get('cond'), s.get('inc'), s.get('body')
        keys, fields = self._assigned({'b': body, 'i': inc, 'c': cond})
        entry = st.copy()
        # havoc everything the loop assigns
        def havoc(state):
            for key in keys:
                if key[0] == 'arr':
                    for k2 in [k2 for k2 in state.env if k2[0] == 'a' and k2[1] == key[1]]:
                        del state.env[k2]
                else:
                    state.env.pop(key, None)
                    state.facts = {f for f in state.facts if f[1] != key}
            if fields:
                for k2 in [k2 for k2 in state.env if k2[0] == 'f']:
                    del state.env[k2]
        # counted loop: i from a upward by ++ / += c with condition i < N (N not assigned in the loop)
        iv = None
        if cond is not None and inc is not None:
            c = strip_keep(cond)
            if c.get('k') == 'BinaryOperator' and c['op'] in ('<', '<=', '!='):
                lkey = self.key_of(c['l'])
                incs = strip_keep(inc)
                up = (is_incdec(incs) and incs['op'] == '++' and self.key_of(incs['e']) == lkey)
                bkeys, _ = self._assigned({'b': body})
                if lkey is not None and up and lkey not in bkeys:
                    iv = lkey
        # the same loop written as `while(i < N) { ..; ++i; }`: i is written exactly once in the body, by an increment
        if iv is None and cond is not None and inc is None and k == 'WhileStmt':
            c = strip_keep(cond)
            if c.get('k') == 'BinaryOperator' and c['op'] in ('<', '<=', '!='):
                lkey = self.key_of(c['l'])
                if lkey is not None:
                    writes = []
                    for x in walk(body):
                        ap = assign_parts_raw(x) if isinstance(x, dict) else None
                        if ap and self.key_of(ap[0]) == lkey:
                            writes.append(('+=' if (ap[2] == '+=' and (const_of(ap[1]) or 0) > 0) else 'other'))
                        elif isinstance(x, dict) and is_incdec(x) and self.key_of(x['e']) == lkey:
                            writes.append('++' if x['op'] == '++' else 'other')
                    if len(writes) == 1 and writes[0] in ('++', '+='):
                        iv = lkey
        # loop invariant by iteration: join(entry, state after one more iteration) until stable; widen (havoc) otherwise
        hst = None
        if not getattr(self, '_in_fix', False):
            self._in_fix = True
            saved = (self.record, self.record_stores, len(self.obl), len(self.stores), len(self.calls), len(self.div_obl), set(self.visited), list(self.returns), dict(self.goto_states))
            self.record = False; self.record_stores = False
            try:
                cand = st.copy()
                if iv is not None and entry.env.get(iv) is not None:
                    r0 = trange((strip_keep(strip_keep(cond)['l']).get('t') or {}))
                    cand.env[iv] = V(entry.env[iv].lo, r0.hi if r0 is not None else (1 << 63), False, entry.env[iv].inp)
                for _ in range(4):
                    b0 = cand.copy()
                    if cond is not None and k != 'DoStmt':
                        self.refine(cond, True, b0)
                    f0, ex0 = self.stmt(body, b0)
                    nxt = cand
                    outs0 = [f0] + [sx for kind, sx in ex0 if kind == 'continue']
                    for o0 in outs0:
                        if o0 is None:
                            continue
                        o1 = o0.copy()
                        if inc is not None:
                            self._effects(inc, o1)
                        if iv is not None:
                            o1.env[iv] = cand.env.get(iv)
                        nxt = join_states(nxt, o1, self.min_sizes)
                    stable = all((nxt.env.get(kk) is not None and cand.env.get(kk) is not None and nxt.env[kk].eq(cand.env[kk])) or (kk not in nxt.env and kk not in cand.env) for kk in set(cand.env) | set(nxt.env)) and nxt.facts == cand.facts
                    cand = nxt
                    if stable:
                        hst = cand.copy()
                        break
            except RecursionError:
                hst = None
            finally:
                self.record, self.record_stores = saved[0], saved[1]
                del self.obl[saved[2]:]; del self.stores[saved[3]:]; del self.calls[saved[4]:]; del self.div_obl[saved[5]:]
                self.visited = saved[6]; self.returns = saved[7]; self.goto_states = saved[8]
                self._in_fix = False
            if hst is not None and fields:
                # calls in the body may change member state the iteration cannot see
                for k2 in [k2 for k2 in hst.env if k2[0] == 'f']:
                    del hst.env[k2]
        if hst is None:
            hst = st.copy()
            havoc(hst)
        if iv is not None and entry.env.get(iv) is not None:
            start = entry.env[iv]
            r = trange(strip_keep(strip_keep(cond)['l']).get('t') or {})
            hi = r.hi if r is not None else (1 << 63)
            hst.env[iv] = V(start.lo, hi, False, start.inp)
        bst = hst.copy()
        if cond is not None and k != 'DoStmt':
            self.exec_expr(cond, bst)
            self.refine(cond, True, bst)
        f, ex = self.stmt(body, bst)
        if self.record_stores:
            for s_ in [f] + [sx for kind, sx in ex]:
                if s_ is not None:
                    self.flush(s_)
        if inc is not None and f is not None:
            f = f.copy()
            self.check_expr(inc, f)
        out = hst.copy()
        if cond is not None:
            self.refine(cond, False, out)
        exits = []
        res = out if k != 'DoStmt' or True else None
        # if the loop cannot be entered the entry state flows through as well
        res = join_states(res, None)
        for kind, sx in ex:
            if kind == 'break':
                hx = sx.copy()
                res = join_states(res, hx, self.min_sizes)
            elif kind == 'return':
                exits.append((kind, sx))
        return res, exits


def strip_keep(e):
    """strip explicit casts only when they do not change the type class; used for keys (variables seen through casts)"""
    return e if not isinstance(e, dict) else e
