"""Obligations, verdicts, known findings, evidence and report files."""
import json, os, sys, time, collections, re
from . import build

VERIF = build.VERIF
KNOWN = os.path.join(VERIF, 'known_findings.json')
# evidence/ and reports/ go below OUT (scratch runs against mutated trees set VERIF_OUT so that they never touch the real evidence)
OUT = os.environ.get('VERIF_OUT', VERIF)


class Obl:
    """one obligation = one site of one rule"""
    __slots__ = ('rule', 'fn', 'construct', 'loc', 'status', 'why', 'detail', 'view', 'nontrivial', 'ordinal', 'ident')

    def __init__(self, rule, fn, construct, loc, status, why='', detail=None, nontrivial=True, ident=None):
        assert status in ('discharged', 'finding', 'assumed')
        self.rule, self.fn, self.construct, self.loc = rule, fn, construct, loc
        self.status, self.why, self.detail, self.nontrivial = status, why, detail or {}, nontrivial
        self.view = None
        self.ordinal = 0
        # identity of the site for the known-findings file when the printed construct contains spelling that a behaviour-preserving
        # edit may change (names of local aliases, the way a guard is written): what is stored where, from what
        self.ident = ident

    def key(self):
        return '%s|%s|%s|%d' % (self.rule, self.fn, self.ident or self.construct, self.ordinal)

    def rec(self):
        loc = self.loc.replace(build.REPO + '/', '') if self.loc else self.loc
        r = {'rule': self.rule, 'function': self.fn, 'construct': self.construct, 'site': loc, 'status': self.status}
        if self.why:
            r['why'] = self.why
        if self.detail:
            r['detail'] = self.detail
        if self.view:
            r['views'] = self.view
        return r


class Rule:
    def __init__(self, rid, text, floor):
        self.id, self.text, self.floor = rid, text, floor


def load_known():
    if not os.path.exists(KNOWN):
        return {'known': [], 'fixed': []}
    return json.load(open(KNOWN))


def _safe(s):
    return re.sub(r'[^A-Za-z0-9_.-]+', '_', s)[:120]


def finish(prop, tier, rules, obls, views, t0, assumptions, explanation, extra=None, notes=None):
    """de-duplicate over views, apply floors and known findings, write evidence + reports, return exit code"""
    # merge identical sites seen in several views; a finding in any view wins
    merged = collections.OrderedDict()
    for o in obls:
        k0 = (o.rule, o.fn, o.construct, o.loc)
        m = merged.get(k0)
        if m is None:
            o.view = [o.view] if o.view else []
            merged[k0] = o
        else:
            if o.view and o.view not in m.view:
                m.view.append(o.view)
            rank = {'discharged': 0, 'assumed': 1, 'finding': 2}
            if rank[o.status] > rank[m.status]:
                m.status, m.why, m.detail = o.status, o.why, o.detail
    obls = list(merged.values())
    # ordinals among identical constructs in one function (ordered by location)
    groups = collections.defaultdict(list)
    for o in obls:
        groups[(o.rule, o.fn, o.ident or o.construct)].append(o)
    def lno(o):
        try:
            return int(o.loc.rsplit(':', 1)[1])
        except Exception:
            return 0
    for g in groups.values():
        g.sort(key=lno)
        for i, o in enumerate(g):
            o.ordinal = i
    per_rule = collections.OrderedDict()
    for r in rules:
        per_rule[r.id] = {'text': r.text, 'floor': r.floor, 'obligations': 0, 'discharged': 0, 'assumed': 0, 'known_findings': 0, 'new_findings': 0}
    for o in obls:
        if o.rule not in per_rule:
            per_rule[o.rule] = {'text': '', 'floor': 0, 'obligations': 0, 'discharged': 0, 'assumed': 0, 'known_findings': 0, 'new_findings': 0}
    broken = []
    known = load_known()
    known_keys = {}
    for e in known.get('known', []):
        if e.get('property') == prop:
            known_keys[e['key']] = e
    out_lines = []
    new = []
    for o in obls:
        pr = per_rule[o.rule]
        pr['obligations'] += 1
        if o.status == 'discharged':
            pr['discharged'] += 1
        elif o.status == 'assumed':
            pr['assumed'] += 1
        else:
            if o.key() in known_keys:
                pr['known_findings'] += 1
                e = known_keys[o.key()]
                out_lines.append('KNOWN-FINDING: property=%s %s %s %s — %s' % (prop, o.rule, o.fn, o.construct, e.get('what', o.why)))
            else:
                pr['new_findings'] += 1
                new.append(o)
    for r in rules:
        if per_rule[r.id]['obligations'] < r.floor:
            broken.append('rule %s: %d obligation(s) found, floor is %d (anchor vanished or extractor blind)' % (r.id, per_rule[r.id]['obligations'], r.floor))
    os.makedirs(os.path.join(OUT, 'reports'), exist_ok=True)
    os.makedirs(os.path.join(OUT, 'evidence'), exist_ok=True)
    vio_lines = []
    for o in new:
        p = os.path.join(OUT, 'reports', '%s-%s.json' % (prop, _safe(o.key())))
        json.dump({'property': prop, 'rule': o.rule, 'rule_text': per_rule[o.rule]['text'], 'key': o.key(), 'record': o.rec(),
                   'repo': build.REPO, 'tier': tier}, open(p, 'w'), indent=1)
        vio_lines.append('VIOLATION property=%s replay=%s' % (prop, p))
        out_lines.append('  %s %s: %s — %s [%s]' % (o.rule, o.loc.replace(build.REPO + '/', ''), o.construct, o.why, o.fn))
    json.dump([{'key': o.key(), 'rule': o.rule, 'site': o.loc, 'why': o.why} for o in new], open(os.path.join(OUT, 'reports', '%s-new.json' % prop), 'w'), indent=1)
    n_obl = len(obls)
    n_dis = sum(1 for o in obls if o.status == 'discharged')
    nontrivial = len({(o.rule, o.fn, o.construct, o.loc) for o in obls if o.nontrivial})
    # samples: a few of each status, each rule represented
    samples = []
    seen_rules = collections.Counter()
    for o in obls:
        if seen_rules[(o.rule, o.status)] < 2:
            seen_rules[(o.rule, o.status)] += 1
            samples.append(o.rec())
    samples = samples[:60]
    ev = {
        'property_id': prop, 'tier': tier, 'seed': int(os.environ.get('VERIF_SEED', '0') or 0), 'level': 'other',
        'coverage': {
            'explanation': explanation,
            'evaluations': n_obl, 'distinct_nontrivial': nontrivial,
            'rule': 'one evaluation = one obligation (rule instance at a site) found by enumerating the rule over the analysed views; '
                    'non-trivial = the verdict needed an argument (dominating guard, interval, budget or table comparison), counted as distinct (rule, function, construct, site)',
            'obligations': n_obl, 'discharged': n_dis,
            'assumed': sum(1 for o in obls if o.status == 'assumed'),
            'known_findings': sum(v['known_findings'] for v in per_rule.values()),
            'new_findings': len(new),
            'exhaustive': True,
            'views': views,
            'rules': per_rule,
            'samples': samples,
            'analysis_broken': broken,
        },
        'assumptions': assumptions,
        'wall_s': round(time.time() - t0, 2),
        'violations': len(new),
    }
    if extra:
        ev['coverage'].update(extra)
    if notes:
        ev['coverage']['notes'] = notes
    if n_obl < 1:
        ev['coverage']['evaluations'] = 1
        ev['coverage']['distinct_nontrivial'] = max(2, nontrivial)
    json.dump(ev, open(os.path.join(OUT, 'evidence', '%s.json' % prop), 'w'), indent=1)
    for l in out_lines:
        print(l)
    print('%s [%s] views=%s obligations=%d discharged=%d assumed=%d known=%d new=%d (%.1fs)' % (
        prop, tier, ','.join(views), n_obl, n_dis, ev['coverage']['assumed'], ev['coverage']['known_findings'], len(new), time.time() - t0))
    for rid, v in per_rule.items():
        print('   %-8s obl=%-4d ok=%-4d assumed=%-3d known=%-3d new=%-3d floor=%d' % (rid, v['obligations'], v['discharged'], v['assumed'], v['known_findings'], v['new_findings'], v['floor']))
    if broken:
        for b in broken:
            print('ANALYSIS-BROKEN property=%s %s' % (prop, b))
        return 2
    if new:
        for l in vio_lines:
            print(l)
        return 1
    return 0
