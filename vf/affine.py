"""Affine-form propagation with trace partitioning on a few named predicates.

A forward dataflow over the structured body of one function.  The abstract value of an integer local is an affine form
    ({leaf: coefficient}, constant)      leaf = a member / parameter / subscript the function does not write, named by `leaf_name`
or None (not affine / unknown).  The analysis is run once per valuation of a small set of named predicates ("atoms", e.g. the channel
is a percussion channel, GS mode is on): a branch whose condition is decided by the valuation (Kleene evaluation of !, &&, ||
over the atoms) takes one side, any other branch is joined (equal forms stay, different forms become None).  Loops forget the locals
their bodies write.  The result is the environment in front of the first statement that satisfies `stop`.

This reads `bank = msb * 256; if(!gs) bank += lsb;` and `if(gs) bank = msb * 256; else bank = msb * 256 + lsb;` as the same thing,
which a comparison of the assignment statements cannot."""
from .core import *
from .logic import const_of


def add_forms(a, b, sign=1):
    if a is None or b is None:
        return None
    d = dict(a[0])
    for s_, c_ in b[0].items():
        d[s_] = d.get(s_, 0) + sign * c_
        if d[s_] == 0:
            del d[s_]
    return (d, a[1] + sign * b[1])


def scale_form(a, k):
    if a is None:
        return None
    return ({s_: c_ * k for s_, c_ in a[0].items()} if k else {}, a[1] * k)


class Affine:
    def __init__(self, fn, atoms, valuation, leaf_name=None):
        """atoms: [(name, matcher)] with matcher(expr) -> True / False (the expression IS the atom / its negation) or None;
        valuation: {name: bool}"""
        self.fn = fn
        self.atoms = atoms
        self.val = valuation
        self.leaf_name = leaf_name or (lambda e: short(e['n']) if e.get('k') in ('MemberExpr', 'DeclRefExpr') else show(e))
        self.written = self._written_locals()
        self.names = {p_['id']: p_['n'] for p_ in fn.params}
        for x in walk(fn.tree):
            if isinstance(x, dict) and x.get('k') == 'DeclStmt':
                for v in x.get('decls', []):
                    self.names[v['id']] = v['n']
        self.result = None
        self.undecided = []

    def _written_locals(self):
        w = set()
        for x in walk(self.fn.tree):
            if not isinstance(x, dict):
                continue
            if x.get('k') == 'DeclStmt':
                for v in x.get('decls', []):
                    w.add(v['id'])
            ap = assign_parts_raw(x)
            t = ap[0] if ap else (x['e'] if is_incdec(x) else None)
            if t is not None and strip(t).get('k') == 'DeclRefExpr':
                w.add(strip(t)['id'])
        return w

    # ---- conditions
    def truth(self, c):
        """True / False / None under the valuation"""
        c = strip(c)
        if not isinstance(c, dict):
            return None
        for name, m in self.atoms:
            r = m(c)
            if r is not None and name in self.val:
                return self.val[name] if r else (not self.val[name])
        k = c.get('k')
        if const_of(c) is not None and k not in ('DeclRefExpr',):
            return bool(const_of(c))
        if k == 'UnaryOperator' and c.get('op') == '!':
            t = self.truth(c['e'])
            return None if t is None else (not t)
        if k == 'BinaryOperator' and c.get('op') == '&&':
            a, b = self.truth(c['l']), self.truth(c['r'])
            if a is False or b is False:
                return False
            return True if (a is True and b is True) else None
        if k == 'BinaryOperator' and c.get('op') == '||':
            a, b = self.truth(c['l']), self.truth(c['r'])
            if a is True or b is True:
                return True
            return False if (a is False and b is False) else None
        if k == 'BinaryOperator' and c.get('op') in ('!=', '==') and const_of(c.get('r')) == 0:
            t = self.truth(c['l'])
            return None if t is None else (t if c['op'] == '!=' else (not t))
        return None

    # ---- expressions
    def form(self, e, env):
        e = strip(e)
        if e is None:
            return None
        c = const_of(e)
        if c is not None and isinstance(c, int):
            return ({}, c)
        k = e.get('k')
        if k == 'DeclRefExpr':
            if e.get('id') in env:
                return env[e['id']]
            if e.get('id') in self.written and not e.get('parm'):
                return None
            return ({self.leaf_name(e): 1}, 0)       # a parameter not written so far holds its initial value
        if k in ('MemberExpr', 'ArraySubscriptExpr'):
            return ({self.leaf_name(e): 1}, 0)
        if k == 'ConditionalOperator':
            t = self.truth(e['cnd'])
            if t is True:
                return self.form(e['l'], env)
            if t is False:
                return self.form(e['r'], env)
            a, b = self.form(e['l'], env), self.form(e['r'], env)
            if a is not None and a == b:
                return a
            self.undecided.append(show(e['cnd']))
            return None
        if k == 'BinaryOperator':
            op = e['op']
            if op in ('+', '|', '-'):
                return add_forms(self.form(e['l'], env), self.form(e['r'], env), -1 if op == '-' else 1)     # `|` of bit-disjoint fields
            if op == '*':
                l, r = self.form(e['l'], env), self.form(e['r'], env)
                if l is not None and r is not None and not r[0]:
                    return scale_form(l, r[1])
                if l is not None and r is not None and not l[0]:
                    return scale_form(r, l[1])
                # the product of two single leaves is a leaf of its own (`i * stride`)
                if l is not None and r is not None and len(l[0]) == 1 and len(r[0]) == 1 and l[1] == 0 and r[1] == 0:
                    (a, ca), (b, cb) = list(l[0].items())[0], list(r[0].items())[0]
                    return ({'*'.join(sorted((a, b))): ca * cb}, 0)
                return None
            if op == '<<':
                l, r = self.form(e['l'], env), self.form(e['r'], env)
                if l is not None and r is not None and not r[0] and 0 <= r[1] < 40:
                    return scale_form(l, 1 << r[1])
                return None
            if op == '&':
                # a mask applied to a single leaf names a new leaf (`lsb & 0x7F`)
                l, r = self.form(e['l'], env), self.form(e['r'], env)
                for a, b in ((l, r), (r, l)):
                    if a is not None and b is not None and not b[0] and len(a[0]) == 1 and a[1] == 0 and list(a[0].values()) == [1]:
                        return ({'%s&%#x' % (list(a[0])[0], b[1] & 0xFFFFFFFF): 1}, 0)
                return None
        return None

    # ---- statements
    def run(self, stop):
        self.stop = stop
        self.result = None
        self._stmt(self.fn.tree, {})
        return self.result

    def _join(self, a, b):
        if a is None:
            return b
        if b is None:
            return a
        # a variable whose two incoming forms differ holds "its own current value": an opaque leaf named after the variable (so that
        # `if(note >= 127) note = 127; .. entry = note` still reads "entry is the key variable"); a parameter that one side never
        # touched has its initial value, the leaf of the same name
        out = {}
        for k in set(a) | set(b):
            fa = a.get(k, ({self.names.get(k, '?'): 1}, 0) if k in self.names and k not in {v_ for v_ in ()} else None)
            fb = b.get(k, ({self.names.get(k, '?'): 1}, 0) if k in self.names else None)
            out[k] = fa if fa == fb else ({self.names.get(k, '?%s' % k): 1}, 0)
        return out

    def _assigned(self, t):
        w = set()
        for x in walk(t):
            if isinstance(x, dict):
                ap = assign_parts_raw(x)
                tt = ap[0] if ap else (x['e'] if is_incdec(x) else None)
                if tt is not None and strip(tt).get('k') == 'DeclRefExpr':
                    w.add(strip(tt)['id'])
                if x.get('k') == 'DeclStmt':
                    for v in x.get('decls', []):
                        w.add(v['id'])
        return w

    def _effects(self, e, env):
        for x in walk(e):
            if not isinstance(x, dict):
                continue
            ap = assign_parts_raw(x)
            if ap and strip(ap[0]).get('k') == 'DeclRefExpr':
                vid = strip(ap[0])['id']
                op = ap[2]
                if op == '=':
                    env[vid] = self.form(ap[1], env)
                elif op in ('+=', '|=', '-='):
                    env[vid] = add_forms(env.get(vid, ({self.leaf_name(strip(ap[0])): 1}, 0) if vid not in self.written else None), self.form(ap[1], env), -1 if op == '-=' else 1)
                elif op == '*=':
                    r = self.form(ap[1], env)
                    env[vid] = scale_form(env.get(vid), r[1]) if (r is not None and not r[0]) else None
                else:
                    env[vid] = None
            elif is_incdec(x) and strip(x['e']).get('k') == 'DeclRefExpr':
                vid = strip(x['e'])['id']
                env[vid] = add_forms(env.get(vid), ({}, 1 if x['op'] == '++' else -1))

    def _stmt(self, t, env):
        """returns the environment after t, or None when control does not fall through (return / the stop point was reached)"""
        if self.result is not None or env is None:
            return None
        if isinstance(t, list):
            for y in t:
                env = self._stmt(y, env)
                if env is None:
                    return None
            return env
        if not isinstance(t, dict):
            return env
        k = t.get('k')
        if k == 'CompoundStmt':
            return self._stmt(t.get('body') or [], env)
        if k == 'IfStmt':
            if self.stop(t.get('cond'), env, self):
                self.result = dict(env)
                return None
            tv = self.truth(t['cond'])
            if tv is True:
                return self._stmt(t.get('then'), dict(env))
            if tv is False:
                return self._stmt(t.get('else'), dict(env)) if t.get('else') is not None else env
            e1 = self._stmt(t.get('then'), dict(env))
            if self.result is not None:
                return None
            e2 = self._stmt(t.get('else'), dict(env)) if t.get('else') is not None else dict(env)
            if self.result is not None:
                return None
            return self._join(e1, e2)
        if k in ('WhileStmt', 'ForStmt', 'DoStmt'):
            env = dict(env)
            if k == 'ForStmt' and t.get('init') is not None:
                env = self._stmt(t['init'], env)
            before = dict(env)
            loopw = self._assigned([t.get('body'), t.get('inc'), t.get('cond')])
            for vid in loopw:
                env[vid] = ({self.names.get(vid, '?%s' % vid): 1}, 0)       # its value in the current round: an opaque leaf named after the variable
            # induction variables: written exactly once per round, unconditionally, by `v += S` / `v++` with a round-invariant S,
            # hold  (value in front of the loop) + #k * S  in round #k - whatever the variable is called and whether it counts
            # frames, bytes or walks a pointer
            opaque = {self.names.get(v_, '?%s' % v_) for v_ in loopw}
            body = t.get('body')
            top = (body.get('body') or []) if isinstance(body, dict) and body.get('k') == 'CompoundStmt' else [body]
            top = list(top) + ([t['inc']] if k == 'ForStmt' and t.get('inc') is not None else [])
            for vid in loopw:
                steps = []
                nwrites = 0
                for x in walk([t.get('body'), t.get('inc'), t.get('cond')]):
                    if not isinstance(x, dict):
                        continue
                    ap = assign_parts_raw(x)
                    tt = ap[0] if ap else (x['e'] if is_incdec(x) else None)
                    if tt is not None and strip(tt).get('k') == 'DeclRefExpr' and strip(tt)['id'] == vid:
                        nwrites += 1
                    if x.get('k') == 'DeclStmt' and any(v_['id'] == vid for v_ in x.get('decls', [])):
                        nwrites += 2
                for y in top:
                    yy = y
                    cands = [yy]
                    if isinstance(yy, dict) and yy.get('k') == 'BinaryOperator' and yy.get('op') == ',':
                        cands = [yy['l'], yy['r']]
                    for c_ in cands:
                        c_ = strip(c_) if isinstance(c_, dict) else c_
                        if not isinstance(c_, dict):
                            continue
                        ap = assign_parts_raw(c_)
                        if ap and strip(ap[0]).get('k') == 'DeclRefExpr' and strip(ap[0])['id'] == vid and ap[2] in ('+=', '-='):
                            f_ = self.form(ap[1], env)
                            steps.append(scale_form(f_, 1 if ap[2] == '+=' else -1) if f_ is not None else None)
                        elif is_incdec(c_) and strip(c_['e']).get('k') == 'DeclRefExpr' and strip(c_['e'])['id'] == vid:
                            steps.append(({}, 1 if c_['op'] == '++' else -1))
                if nwrites == 1 and len(steps) == 1 and steps[0] is not None and not (set(steps[0][0]) & opaque) and vid in before and before[vid] is not None:
                    S = steps[0]
                    if not S[0]:
                        kS = ({'#k': S[1]}, 0) if S[1] else ({}, 0)
                    elif len(S[0]) == 1 and S[1] == 0:
                        (l_, c_), = S[0].items()
                        kS = ({'*'.join(sorted(('#k', l_))): c_}, 0)
                    else:
                        kS = None
                    if kS is not None:
                        env[vid] = add_forms(before[vid], kS)
            inner = self._stmt(t.get('body'), dict(env))       # look for the stop point inside (entry state of an arbitrary iteration)
            if self.result is not None:
                return None
            return env
        if k == 'SwitchStmt':
            env = dict(env)
            for vid in self._assigned(t.get('body')):
                env[vid] = None
            return env
        if k in ('ReturnStmt', 'GotoStmt'):
            return None
        if k in ('BreakStmt', 'ContinueStmt', 'NullStmt'):
            return env
        if k in ('CaseStmt', 'DefaultStmt', 'LabelStmt'):
            return self._stmt(t.get('sub'), env)
        if k == 'CXXTryStmt':
            return self._stmt(t.get('body'), env)
        # leaf statement
        if self.stop(t, env, self):
            self.result = dict(env)
            return None
        env = dict(env)
        if k == 'DeclStmt':
            for v in t.get('decls', []):
                if v.get('init') is not None and not (v.get('ref') or (v.get('t') or {}).get('ref')):
                    self._effects(v['init'], env)
                    env[v['id']] = self.form(v['init'], env)
                else:
                    env[v['id']] = None
            return env
        self._effects(t, env)
        return env


def valuations(names):
    out = [{}]
    for n in names:
        out = [dict(v, **{n: b}) for v in out for b in (False, True)]
    return out


def address_form(eng, e, env):
    """affine form of the ADDRESS an access expression touches, in elements of the pointee: p[i] -> p + i, *q -> q, *(q + k) -> q + k"""
    e = strip(e)
    if e is None:
        return None
    if e.get('k') == 'ArraySubscriptExpr':
        return add_forms(eng.form(e['b'], env), eng.form(e['i'], env))
    if e.get('k') == 'UnaryOperator' and e.get('op') == '*':
        return eng.form(e['e'], env)
    return None
