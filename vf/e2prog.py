"""Whole-program driver of the interval engine: field ranges by narrowing rounds over all member stores,
parameter ranges by call-site join for internal methods, then one recording pass that yields the obligations."""
import collections, time
from .core import *
from .e2 import *
from . import build

CORE_FILES = ('src/opnmidi.cpp', 'src/opnmidi_midiplay.cpp', 'src/opnmidi_midiplay.hpp', 'src/opnmidi_opn2.cpp', 'src/opnmidi_opn2.hpp',
              'src/opnmidi_load.cpp', 'src/opnmidi_private.hpp', 'src/opnmidi_private.cpp', 'src/opnmidi_cvt.hpp', 'src/opnmidi_sequencer.cpp',
              'src/midi_sequencer_impl.hpp', 'src/midi_sequencer.hpp', 'src/wopn/wopn_file.c', 'src/opnmidi_bankmap.tcc', 'src/opnmidi_bankmap.h',
              'src/cvt_mus2mid.hpp', 'src/cvt_xmi2mid.hpp', 'src/file_reader.hpp', 'src/fraction.hpp')

# containers whose minimal size is an invariant established by a companion rule (C03.R1b)
MIN_SIZES = {'m_midiChannels': 16}

_cache = {}


def core_functions(facts):
    return [f for f in facts.all_fns() if f.relfile() in CORE_FILES and f.tree is not None]


def escaped_fields(fns):
    """fields whose address is taken or that are bound to a non-const reference: their range is the type range"""
    esc = set()
    for fn in fns:
        for b, ex, loc in fn.cfg.exprs():
            for x in walk(ex):
                if x.get('k') == 'UnaryOperator' and x.get('op') == '&':
                    t = strip(x['e'])
                    while t.get('k') == 'ArraySubscriptExpr':
                        t = strip(t['b'])
                    if t.get('k') == 'MemberExpr' and trange(t.get('t') or {}) is not None:
                        esc.add(t['n'])
                if x.get('k') == 'DeclStmt':
                    for v in x['decls']:
                        if (v.get('ref') or v['t'].get('ref')) and not v['t'].get('const') and 'init' in v:
                            t = strip(v['init'])
                            if t.get('k') == 'MemberExpr' and trange(t.get('t') or {}) is not None:
                                esc.add(t['n'])
                if 'callee' in x:
                    for a, pt in zip(x.get('a', []), x.get('pt', [])):
                        if pt.get('ref') and not pt.get('const'):
                            t = strip(a)
                            if t.get('k') == 'MemberExpr' and trange(t.get('t') or {}) is not None:
                                esc.add(t['n'])
    return esc


def resizer_sets(facts, fns):
    """for each tracked container: the functions that may change its size, directly or through callees"""
    out = {}
    callers = collections.defaultdict(set)
    direct = collections.defaultdict(set)
    for fn in fns:
        for b, ex, loc in fn.cfg.exprs():
            for x in calls_in(ex):
                cn = callee_name(x)
                if cn:
                    callers[cn].add(fn.name)
                if short(cn) in ('resize', 'clear', 'erase', 'pop_back', 'push_back', 'insert', 'assign', 'swap', 'operator=') and x.get('obj') is not None:
                    o = strip(x['obj'])
                    if o.get('k') == 'MemberExpr' and short(o['n']) in MIN_SIZES:
                        direct[short(o['n'])].add(fn.name)
                if short(cn) == 'operator=' and x.get('a'):
                    o = strip(x['a'][0])
                    if o.get('k') == 'MemberExpr' and short(o['n']) in MIN_SIZES:
                        direct[short(o['n'])].add(fn.name)
    for cont in MIN_SIZES:
        s = set(direct[cont])
        work = list(s)
        while work:
            f = work.pop()
            for c in callers.get(f, ()):
                if c not in s:
                    s.add(c); work.append(c)
        out[cont] = s
    return out, direct


def analyse_program(facts, rounds=8, param_fns=None, files=None):
    """files=None: the library core (CORE_FILES); files=(relpaths): a self-contained sub-program such as one vendored emulator core
    (every function of those files is a root, static functions take their parameter ranges from the call sites inside the files)"""
    key = (facts.view, facts.dir, tuple(files or ()))
    if key in _cache:
        return _cache[key]
    # on-disk cache beside the facts (keyed by the tree hash through facts.dir and by the engine sources)
    import hashlib, pickle, os
    h = hashlib.sha256()
    for f in ('e2.py', 'e2prog.py', 'core.py', 'logic.py'):
        h.update(open(os.path.join(os.path.dirname(os.path.abspath(__file__)), f), 'rb').read())
    h.update(repr(tuple(files or ())).encode())
    pk = os.path.join(facts.dir, 'e2-%s.pkl' % h.hexdigest()[:16])
    if os.path.exists(pk):
        try:
            res = pickle.load(open(pk, 'rb'))
            _cache[key] = res
            return res
        except Exception:
            pass
    t0 = time.time()
    fns = core_functions(facts) if files is None else [f for f in facts.all_fns() if f.relfile() in files and f.tree is not None]
    if files is None and len(fns) < 200:
        raise build.AnalysisBroken('E2: only %d core functions found' % len(fns))
    if files is not None and not fns:
        raise build.AnalysisBroken('E2: no function found in %s' % (files,))
    # dead code (e.g. the single-song XMI converter that is only mentioned in a (void) cast) contributes neither stores nor call sites
    by_name = collections.defaultdict(list)
    for f in facts.all_fns():
        by_name[f.name].append(f)
    reach = set()
    work = [f for f in facts.all_fns() if f.d.get('extern_c') or f.d.get('virt') or f.d.get('ctor') or short(f.name).startswith('~') or short(f.name).startswith('operator')]
    if files is not None:
        work = list(fns)
    while work:
        f = work.pop()
        k = (f.name, f.sig)
        if k in reach:
            continue
        reach.add(k)
        for b, ex, loc in f.cfg.exprs():
            for x in walk(ex):
                n = None
                if 'callee' in x:
                    n = x['callee']
                elif x.get('k') == 'DeclRefExpr' and x.get('fn'):
                    # a function named outside a call: address taken (callback tables), except `(void)f;`
                    n = x.get('n')
                    if ex.get('k', '').endswith('CastExpr') and ex.get('t', {}).get('s') == 'void' and strip(ex) is x:
                        n = None
                if n:
                    for g in by_name.get(n, []):
                        if (g.name, g.sig) not in reach:
                            work.append(g)
    fns = [f for f in fns if (f.name, f.sig) in reach]
    esc = escaped_fields(fns)
    resizers, direct_resizers = resizer_sets(facts, fns)
    field_ranges = {}
    param_ranges = {}
    internal = {f.name for f in fns if not f.d.get('extern_c') and not f.d.get('virt') and (f.d.get('cls') in ('OPNMIDIplay', 'OPN2', 'OPNMIDIplay::MIDIchannel', 'OPNMIDIplay::OpnChannel') or not f.d.get('linkage_external'))}
    if files is not None:
        internal = {f.name for f in fns if not f.d.get('virt') and not f.d.get('linkage_external')}
    # functions whose address is taken (callbacks) keep type ranges
    # Inductive-invariant iteration for the relational facts: start optimistic (every integer parameter of an internal function and
    # every integer field is assumed validated against the tracked containers) and remove what some call site / store does not
    # establish, until stable (greatest fixed point); interval ranges narrow from the type ranges at the same time.
    by1 = {f.name: f for f in fns}
    for name in internal:
        f = by1.get(name)
        if f is None or len(facts.fns.get(name, [])) != 1:
            continue
        for i, p in enumerate(f.params):
            r = trange(p['t'])
            if r is not None and not r.f and not p['t'].get('bool'):
                r.inp = True
                param_ranges[(name, i)] = (r, set(MIN_SIZES))
    public_records = {n for n, r in facts.records.items() if '/include/' in r.get('loc', '')}
    prev_sig = None
    for rnd in range(rounds):
        stores = collections.defaultdict(list)
        calls = collections.defaultdict(list)
        for fn in fns:
            eng = Engine2(facts, field_ranges, MIN_SIZES, param_ranges, resizers=resizers)
            eng.optimistic = (rnd == 0)
            try:
                # constructor initialisers are stores as well
                st0 = St()
                for b in fn.d['blocks']:
                    for s in b['stmts']:
                        if s['s'].get('k') == 'CtorInit' and s['s'].get('field'):
                            eng.fn = fn; eng.record = False; eng.record_stores = False; eng.local_inits = {}
                            ini = s['s'].get('init')
                            if ini and strip(ini).get('k') == 'MemberExpr' and strip(ini).get('n') == s['s']['field']:
                                continue      # copy constructor: same field of another object
                            v = eng.ev(ini, st0) if ini else None
                            if v is not None:
                                stores[s['s']['field']].append(v)
                eng.run(fn, record=False, record_stores=True)
            except RecursionError:
                continue
            for f, v, fname, ln in eng.stores:
                stores[f].append(v)
            for name, avals, afacts in eng.calls:
                calls[name].append((avals, afacts))
        new_fr = {}
        for f, vals in stores.items():
            if f in esc:
                continue
            rec = f.rsplit('::', 1)[0]
            if rec in public_records:
                continue        # structs of the public header are filled by the caller: never narrower than their type
            if any(v is None for v in vals):
                continue
            j = V(0, 0, False, False, None)          # zero-initialisation (memset / value-initialised containers)
            vf = None
            for v in vals:
                j = V(min(j.lo, v.lo), max(j.hi, v.hi), j.f or v.f, j.inp or v.inp)
                if not (v.is_point() and v.lo == 0):
                    vf = (v.vf or frozenset()) if vf is None else (vf & (v.vf or frozenset()))
            j.vf = vf
            new_fr[f] = j
        field_ranges = new_fr
        new_pr = {}
        for name, sites in calls.items():
            if name not in internal:
                continue
            fl = facts.fns.get(name)
            if not fl or len(fl) != 1:
                continue        # overloaded: keep type ranges
            n = len(fl[0].params)
            for i in range(n):
                vals = [s[0][i] if i < len(s[0]) else None for s in sites]
                fcts = [s[1][i] if i < len(s[1]) else set() for s in sites]
                if any(v is None for v in vals) or trange(fl[0].params[i]['t']) is None:
                    continue
                j = None
                for v in vals:
                    j = V(v.lo, v.hi, v.f, v.inp) if j is None else j.join(v)
                conts = set.intersection(*fcts) if fcts else set()
                # only call sites that do not establish the size fact can make the parameter an unbounded *input*
                if MIN_SIZES and not trange(fl[0].params[i]['t']).f:
                    j.inp = any(v.inp for v, fs in zip(vals, fcts) if not fs) if any(fcts) else j.inp
                new_pr[(name, i)] = (j, conts)
        param_ranges = new_pr
        sig = (sorted((k, tuple(sorted(v[1]))) for k, v in new_pr.items()), sorted((k, tuple(sorted(v.vf or ())), v.lo, v.hi) for k, v in new_fr.items()))
        if sig == prev_sig:
            break
        prev_sig = sig
    # recording pass
    obl = []
    div = []
    leaf_total = leaf_seen = 0
    unvisited = []
    def leaves(t, acc):
        if isinstance(t, list):
            for y in t:
                leaves(y, acc)
        elif isinstance(t, dict):
            k = t.get('k')
            if k in ('CompoundStmt', 'IfStmt', 'ForStmt', 'WhileStmt', 'DoStmt', 'SwitchStmt', 'CaseStmt', 'DefaultStmt', 'LabelStmt', 'CXXTryStmt'):
                for k2 in ('body', 'then', 'else', 'sub', 'init', 'handlers'):
                    if k2 in t:
                        leaves(t[k2], acc)
            elif k not in ('BreakStmt', 'ContinueStmt', 'NullStmt', 'GotoStmt'):
                acc.add((t.get('ln'), k))
    for fn in fns:
        eng = Engine2(facts, field_ranges, MIN_SIZES, param_ranges, resizers=resizers)
        try:
            eng.run(fn, record=True)
        except RecursionError:
            continue
        acc = set()
        leaves(fn.tree, acc)
        leaf_total += len(acc)
        leaf_seen += len(acc & eng.visited)
        if acc - eng.visited:
            unvisited.append((fn.name, sorted(x[0] for x in acc - eng.visited if x[0])[:6]))
        obl += eng.obl
        div += [(fn.name,) + d for d in eng.div_obl]
    res = {'obl': obl, 'div': div, 'field_ranges': field_ranges, 'param_ranges': param_ranges, 'leaf_total': leaf_total, 'leaf_seen': leaf_seen, 'unvisited': unvisited, 'functions': len(fns), 'fn_names': sorted({f.name for f in fns}), 'escaped': esc, 'resizers': resizers, 'direct_resizers': direct_resizers, 'secs': time.time() - t0}
    _cache[key] = res
    try:
        tmp = pk + '.tmp%d' % os.getpid()
        pickle.dump(res, open(tmp, 'wb'))
        os.replace(tmp, pk)
    except Exception:
        pass
    return res
