"""Checker self-test of the thorough tier (non-fatal; DESIGN.md 3.5 / 7.4).

Every kept seeded change of the property — sub-agent seeds, own mutants, behaviour-preserving controls (*.equiv.diff) and the
reverse diffs of the fix: commits — is applied to a scratch COPY of /repo's current working tree under /tmp (never to /repo,
no git metadata is touched), the quick check of the property runs against the copy with its evidence and reports redirected to
a scratch directory, and the verdict is recorded in the evidence of the real run.  A seed that no longer applies (the code
it patches has changed) is counted as 'stale', not as missed.  Nothing here can change the verdict on the unchanged tree.
"""
import os, sys, glob, json, shutil, subprocess, tempfile, concurrent.futures as cf
from . import build

V = build.VERIF


def seeds_of(prop):
    out = []
    for mp in sorted(glob.glob(os.path.join(V, 'seeded', 'C[0-9][0-9]', 'meta.json'))):
        meta = json.load(open(mp))
        for s in meta['seeds']:
            by = s.get('checked_by', [meta['property']])
            if prop in by and not s.get('neutralised_by'):
                ad = os.path.join(os.path.dirname(mp), s['name'] + '.adapted.diff')
                out.append((meta['property'] + '/' + s['name'], ad if os.path.exists(ad) else os.path.join(os.path.dirname(mp), s['patch']), 'break'))
    for p in sorted(glob.glob(os.path.join(V, 'seeded', 'own', prop + '_*.diff'))):
        out.append(('own/' + os.path.basename(p)[:-5], p, 'equiv' if p.endswith('.equiv.diff') else 'break'))
    ip = os.path.join(V, 'seeded', 'regress', 'index.json')
    if os.path.exists(ip):
        for h, e in json.load(open(ip)).items():
            if e['property'] == prop:
                ad = os.path.join(V, 'seeded', 'regress', h + '.adapted.diff')
                out.append(('regress/' + h, ad if os.path.exists(ad) else os.path.join(V, 'seeded', 'regress', h + '.diff'), 'break'))
    # seeds of sibling properties whose mechanism this property's check also decides (meta.json: also_checked_by)
    return out


def run_one(prop, name, patch, kind):
    wt = tempfile.mkdtemp(prefix='vf-self-')
    outd = tempfile.mkdtemp(prefix='vf-selfout-')
    try:
        r = subprocess.run(['rsync', '-a', '--exclude', '.git', '--exclude', '_build', build.REPO + '/', wt + '/'], capture_output=True, text=True)
        if r.returncode != 0:
            return name, kind, 'error', 'copy failed'
        r = subprocess.run(['patch', '-s', '-p1', '--fuzz=3', '-d', wt, '-i', patch], capture_output=True, text=True)
        if r.returncode != 0:
            return name, kind, 'stale', 'patch does not apply to the current tree'
        env = dict(os.environ, VERIF_REPO=wt, VERIF_OUT=outd, VERIF_SELFTEST='0')
        r = subprocess.run([sys.executable, os.path.join(V, 'bin', 'vf'), 'check', prop, '--tier', 'quick'], capture_output=True, text=True, env=env)
        rules = sorted({l.split()[0] for l in r.stdout.splitlines() if l.startswith('  ' + prop + '.R')})
        if r.returncode == 1:
            return name, kind, 'reported', ' '.join(rules)
        if r.returncode == 0:
            return name, kind, 'silent', ''
        return name, kind, 'broken', (r.stdout.strip().splitlines() or ['?'])[-1][:160]
    finally:
        shutil.rmtree(wt, ignore_errors=True)
        shutil.rmtree(outd, ignore_errors=True)


def run(prop, jobs=8):
    seeds = seeds_of(prop)
    res = []
    with cf.ThreadPoolExecutor(jobs) as ex:
        for r in ex.map(lambda s: run_one(prop, *s), seeds):
            res.append(r)
    brk = [r for r in res if r[1] == 'break' and r[2] != 'stale']
    eqv = [r for r in res if r[1] == 'equiv' and r[2] != 'stale']
    return {
        'seeded_changes': len(res),
        'breaking_changes_reported': sum(1 for r in brk if r[2] == 'reported'),
        'breaking_changes_total': len(brk),
        'breaking_changes_not_reported': [r[0] for r in brk if r[2] != 'reported'],
        'behaviour_preserving_edits_silent': sum(1 for r in eqv if r[2] == 'silent'),
        'behaviour_preserving_edits_total': len(eqv),
        'stale': [r[0] for r in res if r[2] == 'stale'],
        'details': {r[0]: (r[2] + (': ' + r[3] if r[3] else '')) for r in res},
    }
