"""Compile database, configuration views, fact extraction and the content-keyed cache.

Everything is derived from the *current working tree* of the repository (VERIF_REPO, default
/repo): the cache key is a hash over the content of every file that can influence the
analysed program, so an edited tree is always re-analysed.
"""
import os, sys, json, hashlib, subprocess, shutil, tempfile, fcntl, time, shlex
from concurrent.futures import ThreadPoolExecutor

VERIF = os.path.dirname(os.path.dirname(os.path.abspath(__file__)))
REPO = os.environ.get('VERIF_REPO', '/repo')
CACHE = os.environ.get('VERIF_CACHE', os.path.join(VERIF, '.cache'))
TOOLS = os.path.join(VERIF, 'build')
RESOURCE_DIR = '/usr/lib/llvm-14/lib/clang/14.0.6'

class AnalysisBroken(Exception):
    """exit code 2: the analysis could not be carried out (never a pass, never a violation)"""

# Units whose AST/CFG facts are extracted (repository code; vendored cores are covered by IR rules)
CORE_UNITS = [
    'src/opnmidi.cpp', 'src/opnmidi_midiplay.cpp', 'src/opnmidi_load.cpp', 'src/opnmidi_opn2.cpp',
    'src/opnmidi_sequencer.cpp', 'src/opnmidi_private.cpp', 'src/wopn/wopn_file.c',
]
CHIP_WRAPPER_UNITS = [
    'src/chips/gens_opn2.cpp', 'src/chips/mame_opn2.cpp', 'src/chips/nuked_opn2.cpp', 'src/chips/np2_opna.cpp',
    'src/chips/mame_opna.cpp', 'src/chips/ymfm_opn2.cpp', 'src/chips/ymfm_opna.cpp', 'src/chips/vgm_file_dumper.cpp',
]

# configuration views: name -> (cmake options, extra clang args)
VIEWS = {
    'V0': ([], []),
    'V1': ([], ['-UNDEBUG']),
    'noVGM': (['-DUSE_VGM_FILE_DUMPER=OFF'], []),
    'noSEQ': (['-DWITH_MIDI_SEQUENCER=OFF'], []),
    'noMUS': (['-DWITH_MUS_SUPPORT=OFF'], []),
    'noXMI': (['-DWITH_XMI_SUPPORT=OFF'], []),
    'noNUKED': (['-DUSE_NUKED_EMULATOR=OFF'], []),
    'noMAME': (['-DUSE_MAME_EMULATOR=OFF'], []),
    'noGENS': (['-DUSE_GENS_EMULATOR=OFF'], []),
    'noYMFM': (['-DUSE_YMFM_EMULATOR=OFF'], []),
    'noNP2': (['-DUSE_NP2_EMULATOR=OFF'], []),
    'noMAME2608': (['-DUSE_MAME_2608_EMULATOR=OFF'], []),
    # the C-style vendored emulator cores themselves (default configuration; facts for the units below only)
    'CORES': ([], []),
}
EMU_CORE_UNITS = ['src/chips/gens/Ym2612.cpp', 'src/chips/mame/mame_ym2612fm.c', 'src/chips/nuked/ym3438.c', 'src/chips/mamefm/resampler.cpp']
QUICK_VIEWS = ['V0', 'V1']
THOROUGH_VIEWS = list(VIEWS)


def tree_hash():
    h = hashlib.sha256()
    roots = ['src', 'include', 'cmake', 'test', 'CMakeLists.txt']
    files = []
    for r in roots:
        p = os.path.join(REPO, r)
        if os.path.isfile(p):
            files.append(p)
        for d, dn, fn in os.walk(p):
            dn.sort()
            for f in sorted(fn):
                files.append(os.path.join(d, f))
    for f in sorted(files):
        h.update(os.path.relpath(f, REPO).encode())
        try:
            with open(f, 'rb') as fh:
                h.update(hashlib.sha256(fh.read()).digest())
        except OSError:
            h.update(b'?')
    # the tools and this file are part of the key as well
    for t in ('tools/opnfacts.cc', 'tools/opnir.cc', 'vf/build.py'):
        p = os.path.join(VERIF, t)
        if os.path.exists(p):
            h.update(open(p, 'rb').read())
    h.update(REPO.encode())
    return h.hexdigest()[:20]


class Lock:
    def __init__(self, path):
        self.path = path
    def __enter__(self):
        os.makedirs(os.path.dirname(self.path), exist_ok=True)
        self.fh = open(self.path, 'w')
        fcntl.flock(self.fh, fcntl.LOCK_EX)
        return self
    def __exit__(self, *a):
        fcntl.flock(self.fh, fcntl.LOCK_UN)
        self.fh.close()


def _prune_cache(keep):
    """drop fact sets of trees that are no longer around: only entries untouched for an hour (another process may be
    extracting into a younger one right now), and only beyond the eight most recent"""
    try:
        now = time.time()
        ents = [e for e in os.listdir(CACHE) if os.path.isdir(os.path.join(CACHE, e)) and e != keep]
        ents.sort(key=lambda e: os.path.getmtime(os.path.join(CACHE, e)))
        for e in ents[:-8]:
            if now - os.path.getmtime(os.path.join(CACHE, e)) > 3600:
                shutil.rmtree(os.path.join(CACHE, e), ignore_errors=True)
    except OSError:
        pass


def _run(cmd, **kw):
    return subprocess.run(cmd, stdout=subprocess.PIPE, stderr=subprocess.PIPE, text=True, **kw)


def compile_db(view, scratch):
    """configure the tree for a view in a scratch dir and return the de-duplicated database
    restricted to the library target (first entry per source file)"""
    opts, _ = VIEWS[view]
    bdir = os.path.join(scratch, 'cfg-' + view)
    r = _run(['cmake', '-G', 'Ninja', '-S', REPO, '-B', bdir, '-DCMAKE_EXPORT_COMPILE_COMMANDS=ON',
              '-DWITH_UNIT_TESTS=ON', '-DCMAKE_BUILD_TYPE=RelWithDebInfo'] + opts)
    if r.returncode != 0:
        raise AnalysisBroken('cmake configure failed for view %s: %s' % (view, r.stderr[-2000:]))
    db = json.load(open(os.path.join(bdir, 'compile_commands.json')))
    lib, tests = {}, []
    for e in db:
        out = e.get('output', '')
        rel = os.path.relpath(e['file'], REPO)
        if 'OPNMIDI_static.dir' in out or 'OPNMIDI_shared.dir' in out:
            lib.setdefault(rel, e)
        elif out.startswith('test/') and rel.startswith('src/'):
            tests.append(e)
    if not lib:
        raise AnalysisBroken('no library units in compile database (view %s)' % view)
    # de-duplicated database (library target only): ClangTool would otherwise run every entry of a file
    # (the test targets recompile two units with the sequencer compiled out) and the last one would win
    ddir = os.path.join(scratch, 'db-' + view)
    os.makedirs(ddir, exist_ok=True)
    json.dump(list(lib.values()), open(os.path.join(ddir, 'compile_commands.json'), 'w'))
    return lib, tests, ddir


def _flags(entry):
    """-D/-I/-std/-U flags of a database entry (last -std wins, as in the real build)"""
    toks = shlex.split(entry['command'])
    keep, std = [], None
    i = 1
    while i < len(toks):
        t = toks[i]
        if t in ('-o', '-c'):
            i += 2 if t == '-o' else 1
            if t == '-c':
                i += 1
            continue
        if t.startswith('-std='):
            std = t
        elif t.startswith(('-D', '-I', '-U', '-isystem', '-include')):
            keep.append(t)
            if t in ('-I', '-D', '-U', '-isystem', '-include'):
                keep.append(toks[i + 1]); i += 1
        i += 1
    if std:
        keep.append(std)
    return keep


def extract_view(view, outdir, scratch, units=None):
    lib, tests, bdir = compile_db(view, scratch)
    _, extra = VIEWS[view]
    want = (units or (EMU_CORE_UNITS if view == 'CORES' else CORE_UNITS + CHIP_WRAPPER_UNITS))
    jobs = []
    for u in want:
        if u not in lib:
            continue     # unit compiled out in this view
        o = os.path.join(outdir, u.replace('/', '__') + '.json')
        cmd = [os.path.join(TOOLS, 'opnfacts'), '-p', bdir, '-o', o, '--root', REPO,
               '--extra-arg=-resource-dir=' + RESOURCE_DIR, '--extra-arg=-w']
        for x in extra:
            cmd.append('--extra-arg=' + x)
        if view == 'CORES':
            cmd.append('--with-vendored')
        cmd.append(os.path.join(REPO, u))
        jobs.append((u, cmd, o))
    def work(j):
        u, cmd, o = j
        r = _run(cmd, cwd=scratch)
        return u, r.returncode, r.stderr, o
    with ThreadPoolExecutor(16) as ex:
        res = list(ex.map(work, jobs))
    meta = {'view': view, 'units': [], 'lib_units': sorted(lib), 'defines': {}}
    for u, rc, err, o in res:
        if rc != 0 or not os.path.exists(o):
            raise AnalysisBroken('opnfacts failed on %s (view %s):\n%s' % (u, view, err[-3000:]))
        meta['units'].append(u)
    for u in lib:
        meta['defines'][u] = [f for f in _flags(lib[u]) if f.startswith(('-D', '-U', '-std'))] + extra
    json.dump(meta, open(os.path.join(outdir, 'META.json'), 'w'))
    return meta


def extract_ir(view, outdir, scratch):
    lib, tests, bdir = compile_db(view, scratch)
    _, extra = VIEWS[view]
    bcdir = os.path.join(scratch, 'bc-' + view)
    os.makedirs(bcdir, exist_ok=True)
    jobs = []
    for u, e in sorted(lib.items()):
        bc = os.path.join(bcdir, u.replace('/', '__') + '.bc')
        cc = 'clang' if u.endswith('.c') else 'clang++'
        cmd = [cc, '-O0', '-Xclang', '-disable-O0-optnone', '-g', '-emit-llvm', '-c', '-w'] + _flags(e) + extra + \
              ['-o', bc, os.path.join(REPO, u)]
        jobs.append((u, cmd, bc))
    def work(j):
        u, cmd, bc = j
        r = _run(cmd, cwd=scratch)
        return u, r.returncode, r.stderr, bc
    with ThreadPoolExecutor(16) as ex:
        res = list(ex.map(work, jobs))
    bcs = []
    for u, rc, err, bc in res:
        if rc != 0:
            raise AnalysisBroken('clang -emit-llvm failed on %s (view %s):\n%s' % (u, view, err[-3000:]))
        bcs.append(bc)
    allbc = os.path.join(bcdir, 'all.bc')
    r = _run(['llvm-link-14', '-o', allbc] + bcs)
    if r.returncode != 0:
        raise AnalysisBroken('llvm-link failed (view %s): %s' % (view, r.stderr[-2000:]))
    # promote locals (references and pointer temporaries are allocas at -O0) so that a store through
    # `T *&ref = global[i]` is seen as a store to the global
    promoted = os.path.join(bcdir, 'all.m2r.bc')
    r = _run(['opt-14', '-passes=mem2reg', allbc, '-o', promoted])
    if r.returncode != 0:
        raise AnalysisBroken('opt -passes=mem2reg failed (view %s): %s' % (view, r.stderr[-2000:]))
    allbc = promoted
    out = os.path.join(outdir, 'IR.json')
    r = _run([os.path.join(TOOLS, 'opnir'), allbc, out])
    if r.returncode != 0 or not os.path.exists(out):
        raise AnalysisBroken('opnir failed (view %s): %s' % (view, r.stderr[-2000:]))
    shutil.rmtree(bcdir, ignore_errors=True)
    return out


def facts_dir(view, need_ir=False):
    """returns the directory holding the facts of `view` for the current tree, extracting on demand"""
    for t in ('opnfacts', 'opnir'):
        if not os.path.exists(os.path.join(TOOLS, t)):
            raise AnalysisBroken('tool %s not built; run ./setup.sh' % t)
    key = tree_hash()
    d = os.path.join(CACHE, key, view)
    with Lock(os.path.join(CACHE, 'lock-%s-%s' % (key, view))):
        ok = os.path.exists(os.path.join(d, 'META.json'))
        ok_ir = os.path.exists(os.path.join(d, 'IR.json'))
        if ok and (ok_ir or not need_ir):
            return d
        scratch = tempfile.mkdtemp(prefix='vf-scratch-')
        try:
            os.makedirs(d, exist_ok=True)
            if not ok:
                tmp = d + '.tmp%d' % os.getpid()
                shutil.rmtree(tmp, ignore_errors=True)
                os.makedirs(tmp)
                extract_view(view, tmp, scratch)
                for f in os.listdir(tmp):
                    os.replace(os.path.join(tmp, f), os.path.join(d, f))
                shutil.rmtree(tmp, ignore_errors=True)
            if need_ir and not ok_ir:
                extract_ir(view, d, scratch)
        finally:
            shutil.rmtree(scratch, ignore_errors=True)
        _prune_cache(key)
    return d


if __name__ == '__main__':
    t = time.time()
    for v in (sys.argv[1:] or QUICK_VIEWS):
        print(v, facts_dir(v, need_ir=(v == 'V0')), '%.1fs' % (time.time() - t))
