"""Facts loading, expression helpers, CFG queries (edge-split dominance, reachability)."""
import json, os, collections
from . import build


def walk(e):
    """pre-order walk over every dict node of an expression / statement tree"""
    if isinstance(e, dict):
        yield e
        for k, v in e.items():
            if k in ('t', 'ot', 'ct', 'pt', 'argt', 'newt'):
                continue
            if isinstance(v, (dict, list)):
                yield from walk(v)
    elif isinstance(e, list):
        for v in e:
            yield from walk(v)


def short(n):
    return n.split('::')[-1] if n else n


def is_const(e):
    return isinstance(e, dict) and 'c' in e


def show(e):
    """normalised, position-free rendering of an expression (used in reports and finding keys)"""
    if e is None:
        return '∅'
    if not isinstance(e, dict):
        return str(e)
    k = e.get('k')
    if k == 'DeclRefExpr':
        return short(e['n'])
    if 'c' in e and k not in ('CallExpr', 'CXXMemberCallExpr', 'CXXOperatorCallExpr'):
        return str(e['c'])
    if 'fc' in e and k in ('FloatingLiteral',):
        return repr(e['fc'])
    if k == 'MemberExpr':
        b = e.get('b')
        if b and b.get('k') == 'CXXThisExpr':
            return short(e['n'])
        return show(b) + ('->' if e.get('arrow') else '.') + short(e['n'])
    if k == 'CXXThisExpr':
        return 'this'
    if k in ('BinaryOperator', 'CompoundAssignOperator'):
        return '(%s %s %s)' % (show(e['l']), e['op'], show(e['r']))
    if k == 'UnaryOperator':
        return (show(e['e']) + e['op']) if e.get('post') else (e['op'] + show(e['e']))
    if k == 'ArraySubscriptExpr':
        return '%s[%s]' % (show(e['b']), show(e['i']))
    if k == 'CXXOperatorCallExpr':
        c = short(e.get('callee', ''))
        a = e.get('a', [])
        if c == 'operator[]' and len(a) == 2:
            return '%s[%s]' % (show(a[0]), show(a[1]))
        if c == 'operator=' and len(a) == 2:
            return '(%s = %s)' % (show(a[0]), show(a[1]))
        if c in ('operator->', 'operator*') and len(a) == 1:
            return show(a[0])
        if len(a) == 2:
            return '(%s %s %s)' % (show(a[0]), c.replace('operator', ''), show(a[1]))
        if len(a) == 1:
            return '%s%s' % (c.replace('operator', ''), show(a[0]))
    if 'callee' in e or 'callee_e' in e:
        obj = (show(e['obj']) + '.') if e.get('obj') and e['obj'].get('k') != 'CXXThisExpr' else ''
        nm = short(e['callee']) if 'callee' in e else '(*%s)' % show(e['callee_e'])
        return '%s%s(%s)' % (obj, nm, ','.join(show(a) for a in e.get('a', [])))
    if k and k.endswith('CastExpr'):
        return show(e.get('e'))
    if k == 'ConditionalOperator':
        return '(%s?%s:%s)' % (show(e['cnd']), show(e['l']), show(e['r']))
    if k == 'StringLiteral':
        return '"%s"' % e.get('str', '')
    if k == 'ReturnStmt':
        return 'return ' + (show(e.get('e')) if e.get('e') else '')
    if k == 'DeclStmt':
        return 'decl ' + ', '.join(v['n'] + ('=' + show(v['init']) if 'init' in v else '') for v in e['decls'])
    if k == 'CtorInit':
        return 'init %s(%s)' % (short(e.get('field', e.get('base', '?'))), show(e.get('init')))
    if k == 'UnaryExprOrTypeTraitExpr':
        return 'sizeof(%s)' % (show(e['e']) if 'e' in e else e.get('argt', {}).get('s', '?'))
    if k == 'CXXNewExpr':
        return 'new %s%s' % (e.get('newt', {}).get('s', '?'), '[%s]' % show(e['count']) if 'count' in e else '')
    if 'fc' in e:
        return repr(e['fc'])
    return e.get('txt', k or '?')


ASSIGN_OPS = ('=', '+=', '-=', '*=', '/=', '%=', '<<=', '>>=', '&=', '|=', '^=')


def is_assign(x):
    return isinstance(x, dict) and x.get('k') in ('BinaryOperator', 'CompoundAssignOperator') and x.get('op') in ASSIGN_OPS


def assign_parts_raw(x):
    """(lhs, rhs, op) exactly as written (used by the abstract interpreters, which evaluate the right-hand side themselves)"""
    if is_assign(x):
        return x['l'], x['r'], x['op']
    if isinstance(x, dict) and x.get('k') == 'CXXOperatorCallExpr' and short(x.get('callee', '')) == 'operator=' and len(x.get('a', [])) == 2:
        return x['a'][0], x['a'][1], '='
    return None


def assign_parts(x):
    """(lhs, rhs, op) for built-in assignments and for operator= calls; None otherwise"""
    if is_assign(x):
        if x['op'] == '=':
            # `v = v op e` (and `v = e op v` for commutative op) is reported as the compound assignment `v op= e`, so that the
            # two spellings of an update are one shape for every rule
            r = strip(x['r'])
            if isinstance(r, dict) and r.get('k') == 'BinaryOperator' and r.get('op') in ('+', '-', '*', '/', '%', '&', '|', '^', '<<', '>>'):
                l = strip(x['l'])
                if isinstance(l, dict) and l.get('k') in ('DeclRefExpr', 'MemberExpr', 'ArraySubscriptExpr') and not any('callee' in y or is_incdec(y) for y in walk(l)):
                    lt = show(l)
                    if show(strip(r['l'])) == lt:
                        return x['l'], r['r'], r['op'] + '='
                    if r['op'] in ('+', '*', '&', '|', '^') and show(strip(r['r'])) == lt:
                        return x['l'], r['l'], r['op'] + '='
        return x['l'], x['r'], x['op']
    if isinstance(x, dict) and x.get('k') == 'CXXOperatorCallExpr' and short(x.get('callee', '')) == 'operator=' and len(x.get('a', [])) == 2:
        return x['a'][0], x['a'][1], '='
    return None


def is_incdec(x):
    return isinstance(x, dict) and x.get('k') == 'UnaryOperator' and x.get('op') in ('++', '--')


def strip(e):
    """strip explicit casts"""
    while isinstance(e, dict) and e.get('k', '').endswith('CastExpr') and 'e' in e:
        e = e['e']
    return e


def calls_in(e):
    for x in walk(e):
        if 'callee' in x or 'callee_e' in x:
            yield x


def callee_name(x):
    return x.get('callee') or ''


def mentions(e, pred):
    return any(pred(x) for x in walk(e))


def member_named(name):
    return lambda x: x.get('k') == 'MemberExpr' and short(x['n']) == name


def ref_named(name):
    return lambda x: x.get('k') == 'DeclRefExpr' and short(x['n']) == name


def root_object(e):
    """base object of a member / subscript / deref chain"""
    while isinstance(e, dict):
        k = e.get('k')
        if k in ('MemberExpr', 'ArraySubscriptExpr'):
            e = e['b']
        elif k == 'UnaryOperator' and e['op'] in ('*', '&', '++', '--'):
            e = e['e']
        elif k and k.endswith('CastExpr') and 'e' in e:
            e = e['e']
        elif k == 'CXXOperatorCallExpr' and short(e.get('callee', '')) in ('operator[]', 'operator->', 'operator*') and e.get('a'):
            e = e['a'][0]
        elif k in ('CXXMemberCallExpr',) and e.get('obj') is not None and short(e.get('callee', '')) in ('get', 'operator->', 'operator*', 'at', 'front', 'back'):
            e = e['obj']
        else:
            return e
    return e


def _exits(t):
    """does the statement unconditionally leave the enclosing statement list (return / break / continue / goto)"""
    if not isinstance(t, dict):
        return False
    k = t.get('k')
    if k in ('ReturnStmt', 'BreakStmt', 'ContinueStmt', 'GotoStmt'):
        return True
    if k == 'CompoundStmt':
        body = t.get('body') or []
        return bool(body) and _exits(body[-1])
    return False


class Fn:
    def __init__(self, d, unit):
        self.d = d
        self.unit = unit
        self.name = d['name']
        self.sig = d['sig']
        self.loc = d['loc']
        self.file = d.get('file', '')
        self.params = d['params']
        self.tree = d.get('tree')
        self._cfg = None

    @property
    def cfg(self):
        if self._cfg is None:
            self._cfg = CFG(self.d)
        return self._cfg

    def tree_guards(self):
        """(line, rendering) of every leaf statement of the structured body -> enclosing conditions
        [('if', cond, polarity) | ('loop', cond) | ('switch', cond, case values or None)]"""
        if getattr(self, '_tg', None) is not None:
            return self._tg
        out = {}
        jumps = []
        self._tg_jumps = jumps
        def rec(t, guards):
            if isinstance(t, list):
                for c in t:
                    rec(c, guards)
                return
            if not isinstance(t, dict):
                return
            k = t.get('k')
            if k == 'CompoundStmt':
                # statements after `if(c) return/break/continue;` run only when c is false
                acc = list(guards)
                for c in t.get('body') or []:
                    rec(c, acc)
                    if isinstance(c, dict) and c.get('k') == 'IfStmt' and c.get('else') is None and _exits(c.get('then')):
                        acc = acc + [('if', c['cond'], False)]
            elif k == 'IfStmt':
                rec(t.get('then'), guards + [('if', t['cond'], True)])
                rec(t.get('else'), guards + [('if', t['cond'], False)])
            elif k in ('ForStmt', 'WhileStmt', 'DoStmt'):
                if k == 'ForStmt':
                    rec(t.get('init'), guards)
                g2 = guards + ([('loop', t['cond'])] if t.get('cond') and k != 'DoStmt' else [])
                rec(t.get('body'), g2)
                if k == 'ForStmt' and t.get('inc'):
                    out.setdefault((t['inc'].get('ln'), show(t['inc'])), g2)
            elif k == 'SwitchStmt':
                body = t.get('body')
                items = body.get('body', []) if isinstance(body, dict) and body.get('k') == 'CompoundStmt' else [body]
                cur = None
                extra = []
                for it in items:
                    x = it
                    vals = None
                    while isinstance(x, dict) and x.get('k') in ('CaseStmt', 'DefaultStmt'):
                        vals = (vals or []) + ([x['value']] if x.get('k') == 'CaseStmt' and 'value' in x else ['default'])
                        x = x.get('sub')
                    if vals is not None:
                        cur = vals
                        extra = []
                    rec(x, guards + [('switch', t['cond'], cur)] + extra)
                    if isinstance(x, dict) and x.get('k') == 'IfStmt' and x.get('else') is None and _exits(x.get('then')):
                        extra = extra + [('if', x['cond'], False)]
            elif k in ('CaseStmt', 'DefaultStmt', 'LabelStmt'):
                rec(t.get('sub'), guards)
            elif k == 'CXXTryStmt':
                rec(t.get('body'), guards)
                rec(t.get('handlers'), guards)
            elif k in ('BreakStmt', 'ContinueStmt', 'GotoStmt', 'NullStmt'):
                jumps.append((t, list(guards)))
            else:
                out.setdefault((t.get('ln'), show(t)), guards)
        rec(self.tree, [])
        self._tg = out
        return out

    def jump_guards(self):
        """[(break / continue / goto node, enclosing conditions as in tree_guards)]"""
        self.tree_guards()
        return self._tg_jumps

    def enclosing(self, st):
        """enclosing structured conditions of a CFG statement (see tree_guards)"""
        s = st['s']
        return self.tree_guards().get((s.get('ln'), show(s)), [])

    def relfile(self):
        return self.file.replace(build.REPO + '/', '')

    def __repr__(self):
        return '<Fn %s @%s>' % (self.name, self.loc)


class Facts:
    """all facts of one configuration view"""
    def __init__(self, view, need_ir=False):
        self.view = view
        self.dir = build.facts_dir(view, need_ir=need_ir)
        self.meta = json.load(open(os.path.join(self.dir, 'META.json')))
        self.fns = collections.defaultdict(list)   # qualified name -> [Fn]
        self.globals = {}
        self.records = {}
        self.enums = {}          # enumerator name -> value (all enums of the repository files)
        self.enum_names = collections.defaultdict(dict)   # enum qualified name -> {enumerator: value}
        self.units = []
        self._ir = None
        seen = set()
        for u in self.meta['units']:
            p = os.path.join(self.dir, u.replace('/', '__') + '.json')
            d = json.load(open(p))
            self.units.append(u)
            for f in d['functions']:
                key = (f['name'], f['sig'], f.get('targs', ''), f['loc'])
                if key in seen:
                    continue            # same inline/header function seen from another unit
                seen.add(key)
                self.fns[f['name']].append(Fn(f, u))
            for g in d['globals']:
                self.globals.setdefault((g['name'], g['loc']), g)
            for r in d['records']:
                self.records.setdefault(r['name'], r)
            for en in d.get('enums', []):
                for n, v in en['consts'].items():
                    self.enums.setdefault(n, v)
                    self.enum_names[en['name']][n] = v

    def fn(self, name, sig_contains=None, required=True):
        """the unique function with that qualified name (optionally filtered by a substring of its type)"""
        c = self.fns.get(name, [])
        if sig_contains is not None:
            c = [f for f in c if sig_contains in f.sig]
        # template instantiations of the same pattern: any one will do
        if c:
            return c[0]
        if required:
            raise build.AnalysisBroken('anchor vanished: function %s%s not found in view %s' % (name, ' [%s]' % sig_contains if sig_contains else '', self.view))
        return None

    def fns_matching(self, pred):
        return [f for fl in self.fns.values() for f in fl if pred(f)]

    def all_fns(self):
        for fl in self.fns.values():
            for f in fl:
                yield f

    def glob(self, name, required=True):
        for (n, l), g in self.globals.items():
            if n == name or short(n) == name:
                return g
        if required:
            raise build.AnalysisBroken('anchor vanished: global/table %s not found in view %s' % (name, self.view))
        return None

    @property
    def ir(self):
        if self._ir is None:
            d = build.facts_dir(self.view, need_ir=True)
            self._ir = IR(json.load(open(os.path.join(d, 'IR.json'))))
        return self._ir


class IR:
    def __init__(self, d):
        self.fns = d['functions']
        self.globals = d['globals']
        self.by_name = {f['name']: f for f in self.fns}
        self.by_dname = collections.defaultdict(list)
        for f in self.fns:
            self.by_dname[f['dname']].append(f)

    def roots(self):
        return [f for f in self.fns if f['defined'] and f['external'] and f['name'].startswith('opn2_')]

    def reach(self, roots, indirect=True, stop=()):
        """BFS over the call graph; returns {fn id: parent id}"""
        par = {}
        q = collections.deque()
        for r in roots:
            par[r['id']] = None
            q.append(r['id'])
        while q:
            i = q.popleft()
            f = self.fns[i]
            nxt = list(f['callees']) + (list(f['icallees']) if indirect else [])
            for t in nxt:
                if t not in par and t not in stop:
                    par[t] = i
                    q.append(t)
        return par

    def path(self, par, i, limit=14):
        p = []
        while i is not None and len(p) < limit:
            p.append(self.fns[i]['dname'].split('(')[0])
            i = par.get(i)
        return list(reversed(p))


NORETURN = ('__assert_fail', 'abort', 'exit', '_Exit', 'std::terminate', 'std::abort', '__cxa_throw')


class CFG:
    def __init__(self, f):
        self.f = f
        self.blocks = {b['id']: b for b in f['blocks']}
        self.entry, self.exit = f['entry'], f['exit']
        self.succ = {i: [s for s in b['succ'] if s is not None] for i, b in self.blocks.items()}
        self.pred = collections.defaultdict(list)
        for i, ss in self.succ.items():
            for s in ss:
                self.pred[s].append(i)
        g = collections.defaultdict(list)
        for i, b in self.blocks.items():
            for k, s in enumerate(b['succ']):
                if s is None:
                    continue
                g[('b', i)].append(('e', i, k))
                g[('e', i, k)].append(('b', s))
        self.g = g
        self._dom = None
        self._pdom = None

    # ---- dominance on the edge-split graph
    def _dominators(self, g, entry):
        pred = collections.defaultdict(list)
        for a, vs in g.items():
            for v in vs:
                pred[v].append(a)
        reach = set()
        st = [entry]
        order = []
        while st:
            n = st.pop()
            if n in reach:
                continue
            reach.add(n)
            order.append(n)
            st.extend(g.get(n, []))
        dom = {n: None for n in reach}
        dom[entry] = {entry}
        ch = True
        while ch:
            ch = False
            for n in order:
                if n == entry:
                    continue
                ps = [dom[p] for p in pred[n] if p in reach and dom[p] is not None]
                if not ps:
                    continue
                new = set.intersection(*ps) | {n}
                if new != dom[n]:
                    dom[n] = new
                    ch = True
        return dom

    def dom(self):
        if self._dom is None:
            self._dom = self._dominators(self.g, ('b', self.entry))
        return self._dom

    def abnormal_exit_blocks(self):
        """blocks that reach the exit without a normal return: they end in a call of a noreturn function, or are the failing arm
        of an assert() (`cond ? (void)0 : __assert_fail(..)`: an empty block that falls into the exit)"""
        abn = set()
        for i, b in self.blocks.items():
            if self.exit in [x for x in b['succ'] if x is not None] and \
                    any(x.get('callee') in NORETURN for st in b['stmts'] for x in walk(st['s'])):
                abn.add(i)
        conds = [x for i, b in self.blocks.items() for st in b['stmts'] for x in walk(st['s']) if x.get('k') == 'ConditionalOperator']
        for i, b in self.blocks.items():
            if b.get('term') == 'ConditionalOperator' and 'cond' in b and len(b['succ']) == 2:
                for x in conds:
                    if x.get('ln') == b['cond'].get('ln') and show(x.get('cnd')) == show(b['cond']):
                        for k, arm in ((0, 'l'), (1, 'r')):
                            t = b['succ'][k]
                            if t is not None and any(y.get('callee') in NORETURN for y in walk(x.get(arm))) and self.blocks[t]['succ'] == [self.exit]:
                                abn.add(t)
        return abn

    def pdom(self):
        """post-dominators (on the reversed edge-split graph, from the exit block)"""
        if self._pdom is None:
            # "on every path to a normal return": a block that ends in a call of a noreturn function (assert failure,
            # abort) is not an exit — with -UNDEBUG every assert() would otherwise open a path that by-passes everything
            abn = set()
            for i, b in self.blocks.items():
                if self.exit in [x for x in b['succ'] if x is not None] and \
                        any(x.get('callee') in NORETURN for st in b['stmts'] for x in walk(st['s'])):
                    abn.add(i)
            # assert(): `cond ? (void)0 : __assert_fail(..)` — the failing arm is an empty block that falls into the exit
            conds = [x for i, b in self.blocks.items() for st in b['stmts'] for x in walk(st['s']) if x.get('k') == 'ConditionalOperator']
            for i, b in self.blocks.items():
                if b.get('term') == 'ConditionalOperator' and 'cond' in b and len(b['succ']) == 2:
                    for x in conds:
                        if x.get('ln') == b['cond'].get('ln') and show(x.get('cnd')) == show(b['cond']):
                            for k, arm in ((0, 'l'), (1, 'r')):
                                t = b['succ'][k]
                                if t is not None and any(y.get('callee') in NORETURN for y in walk(x.get(arm))) and self.blocks[t]['succ'] == [self.exit]:
                                    abn.add(t)
            rg = collections.defaultdict(list)
            for a, vs in self.g.items():
                if a[0] == 'b' and a[1] in abn:
                    continue
                for v in vs:
                    rg[v].append(a)
            self._pdom = self._dominators(rg, ('b', self.exit))
        return self._pdom

    def reachable_blocks(self):
        return {n[1] for n in self.dom() if n[0] == 'b'}

    def edge_info(self, i, k):
        b = self.blocks[i]
        tgt = b['succ'][k]
        tb = self.blocks[tgt]
        nsucc = len(b['succ'])
        if b.get('term') == 'SwitchStmt':
            return {'block': i, 'kind': 'case', 'cond': b.get('cond'), 'cases': tb.get('cases', [tb['case']] if 'case' in tb else []),
                    'default': tb.get('default', False), 'loc': b.get('cloc'), 'target': tgt}
        if 'cond' in b and nsucc == 2:
            return {'block': i, 'kind': 'branch', 'cond': b['cond'], 'pol': (k == 0), 'loc': b.get('cloc'), 'target': tgt,
                    'term': b.get('term')}
        return None

    def dominating_edges(self, bid):
        """conditions (with polarity / case labels) of the CFG edges that dominate block bid"""
        out = []
        for n in self.dom().get(('b', bid)) or ():
            if n[0] != 'e':
                continue
            info = self.edge_info(n[1], n[2])
            if info:
                out.append(info)
        return out

    def block_dominates(self, a, b):
        d = self.dom().get(('b', b))
        return d is not None and ('b', a) in d

    def reachable_from(self, bid, avoid=()):
        seen = set()
        st = [bid]
        while st:
            n = st.pop()
            if n in seen or n in avoid:
                continue
            seen.add(n)
            st.extend(self.succ.get(n, []))
        return seen

    def reaches(self, a, b, avoid=()):
        """is there a path a ->+ b (at least one edge) avoiding blocks in `avoid`"""
        seen = set()
        st = list(self.succ.get(a, []))
        while st:
            n = st.pop()
            if n in seen or n in avoid:
                continue
            if n == b:
                return True
            seen.add(n)
            st.extend(self.succ.get(n, []))
        return False

    def stmts(self, conds=True):
        """statement roots in block order; the terminator condition of a block is yielded last as a
        pseudo statement {'loc', 's', 'is_cond'} so that calls and side effects inside conditions are seen"""
        for i in sorted(self.blocks, reverse=True):
            b = self.blocks[i]
            for j, st in enumerate(b['stmts']):
                yield i, j, st
            if conds and 'cond' in b:
                yield i, len(b['stmts']), {'loc': b.get('cloc', '?'), 's': b['cond'], 'is_cond': True}

    def exprs(self):
        """every statement root and every terminator condition: (block, expr, loc)"""
        for i in sorted(self.blocks, reverse=True):
            b = self.blocks[i]
            for st in b['stmts']:
                yield i, st['s'], st['loc']
            if 'cond' in b:
                yield i, b['cond'], b.get('cloc', '?')

    def returns(self):
        """(block, idx, stmt) of every return statement"""
        for i, j, st in self.stmts():
            if st['s'].get('k') == 'ReturnStmt':
                yield i, j, st

    def stmt_before(self, a, b):
        """can statement a=(blk,idx) execute before statement b=(blk,idx) on some path?"""
        (ab, ai), (bb, bi) = a, b
        if ab == bb and ai < bi:
            return True
        return self.reaches(ab, bb)


def single_defs(f):
    """locals with exactly one definition (DeclStmt init) and never reassigned -> initialiser"""
    defs = {}
    assigned = collections.Counter()
    for b in f['blocks']:
        for st in b['stmts']:
            s = st['s']
            if s.get('k') == 'DeclStmt':
                for v in s['decls']:
                    if 'init' in v and not v.get('ref'):
                        defs[v['id']] = v['init']
            for x in walk(s):
                tgt = None
                ap = assign_parts(x)
                if ap:
                    tgt = ap[0]
                elif is_incdec(x):
                    tgt = x['e']
                elif x.get('k') == 'UnaryOperator' and x.get('op') == '&':
                    tgt = x['e']       # address taken: may be written elsewhere
                if tgt is not None and tgt.get('k') == 'DeclRefExpr':
                    assigned[tgt['id']] += 1
    return {i: e for i, e in defs.items() if assigned[i] == 0}


def subst(e, sd, depth=0):
    if isinstance(e, dict):
        if e.get('k') == 'DeclRefExpr' and e.get('id') in sd and depth < 4:
            return subst(sd[e['id']], sd, depth + 1)
        return {k: (subst(v, sd, depth) if k not in ('t', 'ot') else v) for k, v in e.items()}
    if isinstance(e, list):
        return [subst(v, sd, depth) for v in e]
    return e


def tree_walk(t, fn, parents=()):
    """walk the structured statement tree; fn(node, parents)"""
    if isinstance(t, dict):
        fn(t, parents)
        p2 = parents + (t,)
        for k in ('body', 'then', 'else', 'sub', 'init', 'handlers'):
            v = t.get(k)
            if isinstance(v, list):
                for c in v:
                    tree_walk(c, fn, p2)
            elif isinstance(v, dict):
                tree_walk(v, fn, p2)


def dispatch_arms(fn, sel_pred):
    """every dispatch on a selector that satisfies sel_pred(expression), as (node, {label value: [statements]}, [default statements]):
    a `switch(sel)` with its case labels (fall-through honoured), or an if / else-if chain of `sel == C` (`||` of them) tests.  The
    selector of a chain may be a local that is defined once by an expression satisfying sel_pred."""
    from .logic import literals, const_of
    sd = single_defs(fn.d)
    def is_sel(e):
        e = strip(e)
        if e is None:
            return False
        if sel_pred(e):
            return True
        return e.get('k') == 'DeclRefExpr' and e.get('id') in sd and sel_pred(strip(sd[e['id']]))
    out = []
    def labels_of(cond):
        """constants C for which cond is `sel == C [|| sel == C2 ...]`, else None"""
        def eqs(fs):
            if len(fs) == 1 and fs[0][0] == 'cmp' and fs[0][1] == '==':
                for a, b in ((fs[0][2], fs[0][3]), (fs[0][3], fs[0][2])):
                    if is_sel(a) and const_of(b) is not None:
                        return [const_of(b)]
            if len(fs) == 1 and fs[0][0] == 'or':
                r = []
                for alt in fs[0][1]:
                    x = eqs(alt)
                    if x is None:
                        return None
                    r += x
                return r
            return None
        return eqs(literals(cond, True))
    chained = set()
    def rec(t):
        if isinstance(t, list):
            for y in t:
                rec(y)
            return
        if not isinstance(t, dict):
            return
        if t.get('k') == 'SwitchStmt' and is_sel(t.get('cond')):
            arms, default, cur, is_def = {}, [], None, False
            body = t.get('body')
            for it in (body.get('body', []) if isinstance(body, dict) and body.get('k') == 'CompoundStmt' else [body]):
                x = it
                labs, d = [], False
                seen_label = False
                while isinstance(x, dict) and x.get('k') in ('CaseStmt', 'DefaultStmt'):
                    seen_label = True
                    if x.get('k') == 'CaseStmt':
                        labs.append(x.get('value'))
                    else:
                        d = True
                    x = x.get('sub')
                if seen_label:
                    cur = (cur or []) + labs if cur is not None else labs
                    is_def = is_def or d
                    for l in labs:
                        arms.setdefault(l, [])
                if cur is not None and isinstance(x, dict):
                    for l in cur:
                        arms[l].append(x)
                    if is_def:
                        default.append(x)
                    if x.get('k') in ('BreakStmt', 'ReturnStmt', 'GotoStmt', 'ContinueStmt'):
                        cur, is_def = None, False
            out.append((t, arms, default))
        if t.get('k') == 'IfStmt' and id(t) not in chained and labels_of(t.get('cond')) is not None:
            arms, default = {}, []
            x = t
            while isinstance(x, dict) and x.get('k') == 'IfStmt' and labels_of(x.get('cond')) is not None:
                chained.add(id(x))
                for l in labels_of(x['cond']):
                    arms.setdefault(l, []).append(x.get('then'))
                x = x.get('else')
            if x is not None:
                default.append(x)
            if len(arms) >= 2:
                out.append((t, arms, default))
        for k2 in ('body', 'then', 'else', 'sub', 'init', 'handlers'):
            v = t.get(k2)
            if isinstance(v, (dict, list)):
                rec(v)
    rec(fn.tree)
    return out


def alias_defs(f):
    """locals that only name another object: references (never reseated) and pointer locals that are defined once and never
    reassigned -> the expression they were bound to.  subst(e, alias_defs(f)) rewrites a use to the object it names."""
    out = {}
    sd = single_defs(f)
    for b in f['blocks']:
        for st in b['stmts']:
            s_ = st['s']
            if s_.get('k') == 'DeclStmt':
                for v in s_['decls']:
                    if v.get('init') is None:
                        continue
                    if v.get('ref') or (v.get('t') or {}).get('ref'):
                        out[v['id']] = v['init']
                    elif (v.get('t') or {}).get('p') and v['id'] in sd:
                        out[v['id']] = v['init']
    return out


def deref_view(fn, members):
    """a copy of fn in which every use of a reference local that names an element of one of the given member tables (`T &ch =
    m_midiChannels[midCh];`, also through another such reference) is replaced by the expression it was bound to.  Rules that look for
    `m_midiChannels[..].field` read this view: binding a table element to a reference once is the most common refactoring there is.
    Only bindings whose own operands cannot change afterwards are replaced (no write of an operand is reachable from the binding)."""
    al = alias_defs(fn.d)
    writes = {}          # variable -> [(block, index)]
    bound_at = {}
    is_ref = {}
    for b, j, st in fn.cfg.stmts():
        if st['s'].get('k') == 'DeclStmt':
            for v in st['s']['decls']:
                bound_at[v['id']] = (b, j)
                is_ref[v['id']] = bool(v.get('ref') or (v.get('t') or {}).get('ref'))
        for x in walk(st['s']):
            ap = assign_parts_raw(x)
            tgt = ap[0] if ap else (x['e'] if is_incdec(x) else None)
            if tgt is not None and strip(tgt).get('k') == 'DeclRefExpr':
                writes.setdefault(strip(tgt)['id'], []).append((b, j))
    sel = {}
    for vid, init in al.items():
        if not is_ref.get(vid) or vid not in bound_at:
            continue
        full = subst(init, al)
        if not any(isinstance(y, dict) and y.get('k') == 'MemberExpr' and (members is None or short(y.get('n', '')) in members) for y in walk(full)):
            continue
        ops = {y.get('id') for y in walk(full) if isinstance(y, dict) and y.get('k') == 'DeclRefExpr' and not y.get('fn')}
        if any(fn.cfg.stmt_before(bound_at[vid], w) for o in ops for w in writes.get(o, [])):
            continue
        sel[vid] = full
    if not sel:
        return fn
    return Fn(subst(fn.d, sel), fn.unit)


def is_local_helper(caller, cf):
    """cf is a small function of the repository that a maintainer could have extracted from `caller`: a file-static / inline function
    of the same file, or a member function of the same class; never an exported API function"""
    if cf is None or cf.tree is None or cf.d.get('extern_c') or cf.name == caller.name:
        return False
    if len(cf.d.get('blocks', [])) > 40:
        return False
    same_file = cf.file == caller.file or (cf.file.rsplit('.', 1)[0] == caller.file.rsplit('.', 1)[0])
    if not cf.d.get('linkage_external', True) and same_file:
        return True
    cls_a, cls_b = caller.name.rsplit('::', 1)[0] if '::' in caller.name else None, cf.name.rsplit('::', 1)[0] if '::' in cf.name else None
    return bool(cls_a) and cls_a == cls_b and cf.d.get('helper_like', True) and len(cf.d.get('blocks', [])) <= 12


def with_helpers(facts, fn, depth=1):
    """every CFG statement of fn as (b, j, st, s, owner, bind) with owner = fn and bind = {}, and - for each call of a local helper
    (is_local_helper) - every statement of the helper as (b, j, st, s, helper, bind): b, j, st are those of the CALL SITE in fn (so
    order and dominance questions are asked about the caller), s is the helper's statement and bind maps the helper's parameter ids
    to the argument expressions of this call (use subst(e, bind) to read an expression of the helper in the caller's terms)."""
    for b, j, st in fn.cfg.stmts():
        yield b, j, st, st['s'], fn, {}
        if depth <= 0:
            continue
        for x in calls_in(st['s']):
            for cf in facts.fns.get(callee_name(x), [])[:1]:
                if not is_local_helper(fn, cf):
                    continue
                args = x.get('a') or []
                bind = {p['id']: args[i] for i, p in enumerate(cf.params) if i < len(args)}
                for b2, j2, st2, s2, owner, bind2 in with_helpers(facts, cf, depth - 1):
                    bb = dict(bind)
                    for k_, v_ in bind2.items():
                        bb[k_] = subst(v_, bind)
                    yield b, j, st, s2, owner, bb


PURE_CALLS = ('log', 'log10', 'log2', 'exp', 'sqrt', 'floor', 'ceil', 'round', 'fabs', 'abs', 'min', 'max', 'pow', 'sin', 'cos', 'lround', 'trunc')


def inline_expr(facts, call, depth=0):
    """an expression with the value of `call` when the callee is a repository function of the shape
           [locals defined once]  [if(c) return A;]*  return B;
    that writes nothing but its own locals: (c1 ? A1 : (c2 ? A2 : B), [(parameter, argument)]) with the locals replaced by their
    initialisers; the parameters remain and are bound to the argument values by the engine that evaluates the expression (so that
    a test on a parameter narrows it).  None for every other callee.  (Helpers extracted from a formula are read as the formula.)"""
    if depth > 2:
        return None
    fl = facts.fns.get(callee_name(call)) if callee_name(call) else None
    if not fl or fl[0].tree is None or '/chips/' in fl[0].file:
        return None
    cf = fl[0]
    if not cf.file.startswith(build.REPO) or call.get('obj') is not None:
        return None
    args = call.get('a') or []
    if len(args) != len(cf.params):
        return None
    for a in args:
        if any(isinstance(y, dict) and (is_incdec(y) or is_assign(y)) for y in walk(a)):
            return None
    body = cf.tree.get('body') if cf.tree.get('k') == 'CompoundStmt' else None
    if not body:
        return None
    sub = {}        # locals only: the parameters stay, the caller binds them to the argument values (see the return value)
    def pure(e):
        for y in walk(e):
            if not isinstance(y, dict):
                continue
            if is_incdec(y) or is_assign(y):
                return False
            if 'callee' in y and short(callee_name(y)) not in PURE_CALLS and inline_expr(facts, y, depth + 1) is None:
                return False
        return True
    def ret_of(t):
        t = t['body'][0] if isinstance(t, dict) and t.get('k') == 'CompoundStmt' and len(t.get('body', [])) == 1 else t
        return t.get('e') if isinstance(t, dict) and t.get('k') == 'ReturnStmt' else None
    parts = []      # [(cond, value)] then the final value
    final = None
    for it in body:
        if not isinstance(it, dict) or final is not None:
            return None
        k = it.get('k')
        if k == 'DeclStmt':
            for v in it.get('decls', []):
                if v.get('init') is None or v.get('ref') or not pure(v['init']):
                    return None
                sub[v['id']] = subst(v['init'], sub)
        elif k == 'IfStmt' and ret_of(it.get('then')) is not None and pure(it['cond']) and pure(ret_of(it['then'])):
            if it.get('else') is None:
                parts.append((subst(it['cond'], sub), subst(ret_of(it['then']), sub)))
            elif ret_of(it['else']) is not None and pure(ret_of(it['else'])):
                parts.append((subst(it['cond'], sub), subst(ret_of(it['then']), sub)))
                final = subst(ret_of(it['else']), sub)
            else:
                return None
        elif k == 'ReturnStmt' and it.get('e') is not None and pure(it['e']):
            final = subst(it['e'], sub)
        elif k == 'NullStmt':
            continue
        else:
            return None
    if final is None:
        return None
    # locals must not be reassigned anywhere (checked by construction: only DeclStmt / if-return / return were accepted)
    rt = cf.d.get('ret') or call.get('t') or {}
    e = final
    for c, v in reversed(parts):
        e = {'k': 'ConditionalOperator', 'cnd': c, 'l': v, 'r': e, 't': rt, 'ln': call.get('ln')}
    # the value is converted to the return type; parameters are to be bound to the arguments by the caller
    return {'k': 'ImplicitCastExpr', 'e': e, 't': rt, 'ln': call.get('ln')}, list(zip(cf.params, args))


def canon_access(e, al=None):
    """e with local aliases (alias_defs) replaced by what they name and `*(p + i)` / `*(i + p)` rewritten as p[i]: one shape for
    `T[a][b]`, `row = T[a]; row[b]` and `row = T[a]; *(row + b)`"""
    if al:
        e = subst(e, al)
    def rw(x):
        if isinstance(x, list):
            return [rw(y) for y in x]
        if not isinstance(x, dict):
            return x
        x = {k: (rw(v) if k not in ('t', 'ot') else v) for k, v in x.items()}
        if x.get('k') == 'UnaryOperator' and x.get('op') == '*':
            inner = strip(x.get('e'))
            # `*((p + i) - k)` / `*(p + i + j)`: one pointer term and the rest as the index
            def is_ptr(y):
                y = strip(y)
                return isinstance(y, dict) and bool((y.get('t') or {}).get('p') or (y.get('t') or {}).get('arr')) and y.get('k') != 'BinaryOperator'
            if isinstance(inner, dict) and inner.get('k') == 'BinaryOperator' and inner.get('op') in ('+', '-') and not is_ptr(inner.get('r')) \
                    and isinstance(strip(inner['l']), dict) and strip(inner['l']).get('k') == 'BinaryOperator' and strip(inner['l']).get('op') == '+':
                l2 = strip(inner['l'])
                for p_, i_ in ((l2['l'], l2['r']), (l2['r'], l2['l'])):
                    if is_ptr(p_) and not is_ptr(i_):
                        idx = {'k': 'BinaryOperator', 'op': inner['op'], 'l': i_, 'r': inner['r'], 't': (strip(i_).get('t') or {})}
                        return {'k': 'ArraySubscriptExpr', 'b': strip(p_), 'i': idx, 't': x.get('t'), 'ln': x.get('ln')}
            if isinstance(inner, dict) and (inner.get('t') or {}).get('p') and inner.get('k') in ('DeclRefExpr', 'MemberExpr'):
                return {'k': 'ArraySubscriptExpr', 'b': inner, 'i': {'k': 'IntegerLiteral', 'c': 0, 't': {'s': 'int', 'w': 32}}, 't': x.get('t'), 'ln': x.get('ln')}
            if isinstance(inner, dict) and inner.get('k') == 'BinaryOperator' and inner.get('op') == '+':
                l, r = strip(inner['l']), strip(inner['r'])
                lp = (l.get('t') or {}).get('p') or (l.get('t') or {}).get('arr') or l.get('k') == 'ArraySubscriptExpr'
                rp = (r.get('t') or {}).get('p') or (r.get('t') or {}).get('arr') or r.get('k') == 'ArraySubscriptExpr'
                if lp and not rp:
                    return {'k': 'ArraySubscriptExpr', 'b': l, 'i': r, 't': x.get('t'), 'ln': x.get('ln')}
                if rp and not lp:
                    return {'k': 'ArraySubscriptExpr', 'b': r, 'i': l, 't': x.get('t'), 'ln': x.get('ln')}
        return x
    return rw(e)
