"""Symbolic upper bounds against a size parameter ("index <= size + c") — a small must-dataflow over the CFG.

For a function with a pointer parameter P and an integer parameter N that gives the number of elements behind P, every
subscript P[i] is an obligation  i <= N - 1.  The state holds
    nmin        a lower bound of N established by the guards passed so far (`if(size < 4) return;`)
    rel[v] = c  local v <= N + c           (`v < size - 1`  ->  c = -2;  `++v` adds 1;  `v = min(x, size)` -> c = 0)
    skew        elements the buffer pointer was advanced by without the size having been reduced yet (`data += 3; size -= 4;`)
    cst[v] = k  local v <= k               (`v = 0`, `v < 16`)
meet: nmin = min, rel/cst = max (missing = unknown).  Loop heads are widened to "unknown" after a few rounds, and the
loop condition refines the bound again on the body edge, which is exactly the induction a counting loop needs.
P may only be advanced and N only be reduced by constants (the `data += k; size -= k;` idiom); any other store to them makes
the function 'not decided'.
"""
import collections
from .core import *
from .logic import literals, const_of

SWAP = {'<': '>', '>': '<', '<=': '>=', '>=': '<=', '==': '==', '!=': '!='}
UNK = None


class SB:
    __slots__ = ('nmin', 'rel', 'cst', 'skew', 'low')

    def __init__(self, nmin=0, rel=None, cst=None, skew=0, low=None):
        self.nmin, self.rel, self.cst, self.skew, self.low = nmin, dict(rel or {}), dict(cst or {}), skew, dict(low or {})

    def key(self):
        return (self.nmin, tuple(sorted(self.rel.items())), tuple(sorted(self.cst.items())), self.skew, tuple(sorted(self.low.items())))

    def copy(self):
        return SB(self.nmin, self.rel, self.cst, self.skew, self.low)

    def meet(self, o):
        r = SB(min(self.nmin, o.nmin), skew=max(self.skew, o.skew))
        for k in self.low.keys() & o.low.keys():
            r.low[k] = min(self.low[k], o.low[k])
        for k in self.rel.keys() & o.rel.keys():
            r.rel[k] = max(self.rel[k], o.rel[k])
        for k in self.cst.keys() & o.cst.keys():
            r.cst[k] = max(self.cst[k], o.cst[k])
        # a constant bound on one side and a relative bound on the other: express the constant relative to N with that side's nmin
        for k in (self.rel.keys() ^ o.rel.keys()):
            a, b = (self, o) if k in self.rel else (o, self)
            if k in b.cst:
                r.rel[k] = max(a.rel[k], b.cst[k] - b.nmin)
        return r


class BufSize:
    def __init__(self, fn, ptr_ids, n_id):
        self.fn, self.cfg, self.ptr_ids, self.n_id = fn, fn.cfg, set(ptr_ids), n_id
        self.obl = {}
        self.undecided = None
        self.probes = {}            # short callee name -> argument index whose upper bound is recorded at every call
        self.probe_results = {}

    def lid(self, e):
        e = strip(e)
        if e is not None and e.get('k') == 'DeclRefExpr':
            return e.get('id')
        return None

    def is_n(self, e):
        return self.lid(e) == self.n_id

    # upper bound of an expression: ('rel', c) | ('cst', k) | None
    def ub(self, e, st):
        e = strip(e)
        if e is None:
            return None
        c = const_of(e)
        if c is not None:
            return ('cst', c)
        if self.is_n(e):
            return ('rel', 0)
        k = e.get('k')
        if k == 'DeclRefExpr':
            i = e.get('id')
            if i in st.rel:
                return ('rel', st.rel[i])
            if i in st.cst:
                return ('cst', st.cst[i])
            return None
        if k == 'BinaryOperator' and e['op'] in ('+', '-'):
            l = self.ub(e['l'], st)
            cr = const_of(e['r'])
            if l is not None and cr is not None:
                return (l[0], l[1] + (cr if e['op'] == '+' else -cr))
            return None
        if 'callee' in e and short(callee_name(e)) == 'min' and len(e.get('a', [])) == 2:
            bs = [self.ub(a, st) for a in e['a']]
            bs = [b for b in bs if b is not None]
            rel = [b[1] for b in bs if b[0] == 'rel']
            cst = [b[1] for b in bs if b[0] == 'cst']
            if rel:
                return ('rel', min(rel))
            if cst:
                return ('cst', min(cst))
            return None
        if k == 'ConditionalOperator':
            a, b = self.ub(e.get('l'), st), self.ub(e.get('r'), st)
            if a and b and a[0] == b[0]:
                return (a[0], max(a[1], b[1]))
            # (x > k) ? k : x  and its mirror images are min(x, k): bounded by either operand
            c = strip(e.get('cnd'))
            if c is not None and c.get('k') == 'BinaryOperator' and c.get('op') in ('<', '>', '<=', '>='):
                cl, cr, tl, tr = show(strip(c['l'])), show(strip(c['r'])), show(strip(e['l'])), show(strip(e['r']))
                is_min = (c['op'] in ('>', '>=') and cl == tr and cr == tl) or (c['op'] in ('<', '<=') and cl == tl and cr == tr)
                if is_min:
                    rel = [x for x in (a, b) if x and x[0] == 'rel']
                    return rel[0] if rel else (a or b)
        return None

    def set_ub(self, st, vid, b):
        st.rel.pop(vid, None); st.cst.pop(vid, None); st.low.pop(vid, None)
        if b is not None:
            (st.rel if b[0] == 'rel' else st.cst)[vid] = b[1]

    def refine(self, st, cond, pol):
        st = st.copy()
        for f in self.flat(literals(cond, pol)):
            if f[0] != 'cmp':
                continue
            _, op, l, r = f
            for (o, a, b) in ((op, l, r), (SWAP[op], r, l)):
                # facts about N itself
                if self.is_n(a):
                    k = const_of(b)
                    if k is not None:
                        if o == '>=':
                            st.nmin = max(st.nmin, k)
                        elif o == '>':
                            st.nmin = max(st.nmin, k + 1)
                        elif o == '==':
                            st.nmin = max(st.nmin, k)
                # v < E / v <= E, also v + k < E
                vid = self.lid(a)
                off = 0
                sa = strip(a)
                if vid is None and sa is not None and sa.get('k') == 'BinaryOperator' and sa.get('op') in ('+', '-') and const_of(sa['r']) is not None and self.lid(sa['l']) is not None:
                    vid = self.lid(sa['l'])
                    off = const_of(sa['r']) * (1 if sa['op'] == '+' else -1)
                    if off < 0 and (strip(sa['l']).get('t') or {}).get('u'):
                        vid = None          # v - k on an unsigned v may wrap: no bound
                # v > K / v >= K with a constant K: a lower bound (`if(v > 512) v = 512;` lowers v, whatever bounded it before still does)
                if vid is not None and off == 0 and vid != self.n_id and vid not in self.ptr_ids and o in ('>', '>=') and const_of(b) is not None:
                    st.low[vid] = max(st.low.get(vid, -10 ** 30), const_of(b) + (1 if o == '>' else 0))
                if vid is not None and vid != self.n_id and vid not in self.ptr_ids and o in ('<', '<='):
                    bb = self.ub(b, st)
                    if bb is not None:
                        nb = (bb[0], bb[1] - (1 if o == '<' else 0) - off)
                        cur = ('rel', st.rel[vid]) if vid in st.rel else (('cst', st.cst[vid]) if vid in st.cst else None)
                        if nb[0] == 'rel':
                            st.rel[vid] = min(nb[1], st.rel.get(vid, nb[1]))
                        else:
                            st.cst[vid] = min(nb[1], st.cst.get(vid, nb[1]))
        return st

    def flat(self, lits):
        for l in lits:
            if l[0] == 'or':
                continue        # a disjunction bounds nothing by itself
            yield l

    def need(self, st, x, loc):
        i = x['i']
        b = self.ub(i, st)
        ok = False
        have = 'no bound'
        if b is not None:
            if b[0] == 'rel':
                ok = b[1] + st.skew <= -1
                have = 'index <= size %+d' % b[1] + (' (pointer advanced by %d more than the size was reduced)' % st.skew if st.skew > 0 else '')
            else:
                ok = b[1] <= st.nmin - st.skew - 1
                have = 'index <= %d, size >= %d' % (b[1], st.nmin) + (' (pointer advanced by %d more than the size was reduced)' % st.skew if st.skew > 0 else '')
        vid = self.lid(i)
        if not ok and vid is not None and vid in st.cst and vid in st.rel:
            ok = st.cst[vid] <= st.nmin - st.skew - 1
        key = (x.get('ln'), show(x))
        old = self.obl.get(key)
        if old is None or (old[0] and not ok):
            self.obl[key] = (ok, have, loc)

    def eff(self, e, st, loc):
        if isinstance(e, list):
            for y in e:
                st = self.eff(y, st, loc)
            return st
        if not isinstance(e, dict):
            return st
        k = e.get('k')
        if k == 'DeclStmt':
            for v in e.get('decls', []):
                if v.get('init') is not None:
                    st = self.eff(v['init'], st, loc)
                    st = st.copy()
                    if v['id'] == self.n_id:
                        # the size symbol is (re)defined here (a per-iteration local): bounds relative to its old value are void
                        st.rel.clear(); st.nmin = 0; st.skew = 0
                        continue
                    self.set_ub(st, v['id'], self.ub(v['init'], st))
            return st
        if k in ('ConditionalOperator',):
            a = self.eff(e.get('l'), st, loc)
            b = self.eff(e.get('r'), st, loc)
            return a.meet(b)
        if k == 'ArraySubscriptExpr' and self.lid(e.get('b')) in self.ptr_ids:
            st = self.eff(e['i'], st, loc)
            self.need(st, e, loc)
            return st
        if is_incdec(e):
            vid = self.lid(e['e'])
            if vid in self.ptr_ids or vid == self.n_id:
                st = st.copy()
                if vid in self.ptr_ids and e['op'] == '++':
                    st.skew += 1
                elif vid == self.n_id and e['op'] == '--':
                    st.nmin -= 1
                    st.skew -= 1
                    for v in st.rel:
                        st.rel[v] += 1
                else:
                    self.undecided = 'the buffer pointer or its size is modified (line %s)' % e.get('ln')
                return st
            if vid is not None:
                st = st.copy()
                st.low.pop(vid, None)
                d = 1 if e['op'] == '++' else -1
                if vid in st.rel:
                    st.rel[vid] += d
                if vid in st.cst:
                    st.cst[vid] += d
            return st
        ap = assign_parts_raw(e)
        if ap:
            tgt, rhs, op = ap
            st = self.eff(rhs, st, loc)
            st = self.eff(tgt, st, loc) if strip(tgt).get('k') != 'DeclRefExpr' else st
            vid = self.lid(tgt)
            if vid in self.ptr_ids or vid == self.n_id:
                k = const_of(rhs)
                st = st.copy()
                if vid in self.ptr_ids and op == '+=' and k is not None and k >= 0:
                    st.skew += k
                    return st
                if vid == self.n_id and op == '-=' and k is not None and k >= 0:
                    st.nmin -= k
                    st.skew -= k
                    for v in st.rel:
                        st.rel[v] += k
                    return st
                self.undecided = 'the buffer pointer or its size is overwritten (line %s)' % e.get('ln')
                return st
            if vid is not None:
                st = st.copy()
                if op == '=':
                    keep = st.rel.get(vid) if (const_of(rhs) is not None and vid in st.low and const_of(rhs) <= st.low[vid]) else None
                    self.set_ub(st, vid, self.ub(rhs, st))
                    if keep is not None:
                        st.rel[vid] = keep          # the constant stored is not above the old value
                elif op in ('+=', '-=') and const_of(rhs) is not None:
                    st.low.pop(vid, None)
                    d = const_of(rhs) * (1 if op == '+=' else -1)
                    if vid in st.rel:
                        st.rel[vid] += d
                    if vid in st.cst:
                        st.cst[vid] += d
                else:
                    self.set_ub(st, vid, None)
            return st
        if 'callee' in e:
            pi = self.probes.get(short(callee_name(e)))
            if pi is not None and pi < len(e.get('a', [])):
                b_ = self.ub(e['a'][pi], st)
                k_ = (e.get('ln'), '%s(.., %s)' % (short(callee_name(e)), show(e['a'][pi])[:40]))
                old = self.probe_results.get(k_, 'unset')
                if old == 'unset' or b_ is None or (old is not None and old[0] == b_[0] and b_[1] > old[1]):
                    self.probe_results[k_] = b_
            for a in e.get('a', []):
                sa = strip(a)
                if sa is not None and sa.get('k') == 'UnaryOperator' and sa.get('op') == '&':
                    vid = self.lid(sa['e'])
                    if vid is not None:
                        st = st.copy(); self.set_ub(st, vid, None)
                st = self.eff(a, st, loc)
            if e.get('obj') is not None:
                st = self.eff(e['obj'], st, loc)
            return st
        for kk, v in e.items():
            if kk in ('t', 'ot', 'ct', 'pt', 'argt', 'newt', 'cnd'):
                continue
            if isinstance(v, (dict, list)):
                st = self.eff(v, st, loc)
        return st

    def block(self, bid, st):
        b = self.cfg.blocks[bid]
        for s in b['stmts']:
            st = self.eff(s['s'], st, s['loc'])
        if 'cond' in b:
            st = self.eff(b['cond'], st, b.get('cloc'))
        return st

    def run(self):
        cfg = self.cfg
        inn = {cfg.entry: SB(0)}
        visits = collections.Counter()
        work = collections.deque([cfg.entry])
        while work:
            bid = work.popleft()
            st = self.block(bid, inn[bid])
            b = cfg.blocks[bid]
            succ = b['succ']
            for k, t in enumerate(succ):
                if t is None:
                    continue
                out = st
                if 'cond' in b and len(succ) == 2 and b.get('term') != 'SwitchStmt':
                    out = self.refine(st, b['cond'], k == 0)
                old = inn.get(t)
                new = out if old is None else old.meet(out)
                if old is not None:
                    visits[t] += 1
                    if visits[t] > 6:
                        # widening: drop the bounds that are still moving
                        for d in ('rel', 'cst'):
                            od, nd = getattr(old, d), getattr(new, d)
                            for kk in list(nd):
                                if kk in od and nd[kk] != od[kk]:
                                    del nd[kk]
                if old is None or new.key() != old.key():
                    inn[t] = new
                    work.append(t)
        self.obl = {}
        self.probe_results = {}
        for bid, st in inn.items():
            self.block(bid, st)
        return self.obl
