// opnir: whole-program LLVM IR facts for the libOPNMIDI static checks.
//  usage: opnir all.bc out.json
//  * functions: name, demangled name, defining file/line, direct callees, indirect callees
//    (every address-taken function whose signature matches modulo pointer types),
//    calls to allocation / abort / assert / throw primitives with their debug location
//  * globals: every mutable global / function static / class static; for each, every
//    store, mem-intrinsic or escaping use reached by following def-use chains from the
//    global (GEP, casts, phi, select, argument passing into callees), with a backward
//    slice of the stored value classifying it as argument/instance dependent or not
#include "llvm/IR/LLVMContext.h"
#include "llvm/IR/Module.h"
#include "llvm/IR/Instructions.h"
#include "llvm/IR/IntrinsicInst.h"
#include "llvm/IR/Constants.h"
#include "llvm/IR/DebugInfoMetadata.h"
#include "llvm/IRReader/IRReader.h"
#include "llvm/Support/SourceMgr.h"
#include "llvm/Support/raw_ostream.h"
#include "llvm/Support/JSON.h"
#include "llvm/Demangle/Demangle.h"
#include <map>
#include <set>
#include <deque>
#include <string>
using namespace llvm;
namespace json = llvm::json;

static std::string dm(StringRef n) { return demangle(n.str()); }
static std::string loc(const Instruction *I) {
  if (const DebugLoc &D = I->getDebugLoc()) {
    auto *S = D->getScope();
    std::string f = S ? S->getFilename().str() : "";
    return f + ":" + std::to_string(D.getLine());
  }
  return "?";
}

struct Site { const GlobalVariable *G; const Function *F; const Instruction *I; std::string kind; const Value *val; };
static std::vector<Site> sites;
static std::set<const GlobalVariable *> guards;

static const std::set<std::string> readonlyExt = {
  "memcmp", "strlen", "strcmp", "strncmp", "fopen", "printf", "fprintf", "puts", "strchr", "atoi", "__cxa_guard_release",
  "__cxa_guard_abort", "__cxa_atexit", "fwrite", "strtol", "bcmp", "fputs", "fputc"};

static void follow(const GlobalVariable *G, const Value *V, std::set<const Value *> &seen, int depth) {
  if (!seen.insert(V).second || depth > 6) return;
  for (const User *U : V->users()) {
    if (auto *SI = dyn_cast<StoreInst>(U)) {
      if (SI->getPointerOperand() == V) sites.push_back({G, SI->getFunction(), SI, "store", SI->getValueOperand()});
      else sites.push_back({G, SI->getFunction(), SI, "addr-stored", nullptr});
    } else if (isa<LoadInst>(U) || isa<CmpInst>(U)) {
    } else if (isa<GetElementPtrInst>(U) || isa<CastInst>(U) || isa<PHINode>(U) || isa<SelectInst>(U)) {
      if (isa<PtrToIntInst>(U)) sites.push_back({G, cast<Instruction>(U)->getFunction(), cast<Instruction>(U), "ptrtoint", nullptr});
      follow(G, U, seen, depth);
    } else if (auto *CE = dyn_cast<ConstantExpr>(U)) {
      follow(G, CE, seen, depth);
    } else if (auto *CB = dyn_cast<CallBase>(U)) {
      const Function *Callee = CB->getCalledFunction();
      for (unsigned i = 0; i < CB->arg_size(); ++i) {
        if (CB->getArgOperand(i) != V) continue;
        if (auto *MI = dyn_cast<MemIntrinsic>(CB)) {
          if (i == 0) sites.push_back({G, CB->getFunction(), CB, "memintrinsic-dest", isa<MemTransferInst>(MI) ? cast<MemTransferInst>(MI)->getRawSource() : CB->getArgOperand(1)});
          continue;
        }
        if (!Callee) { sites.push_back({G, CB->getFunction(), CB, "arg-indirect-call", nullptr}); continue; }
        std::string n = Callee->getName().str();
        if (n == "__cxa_guard_acquire") { guards.insert(G); continue; }
        if (Callee->isIntrinsic()) continue;
        if (Callee->isDeclaration()) {
          if (!readonlyExt.count(n)) sites.push_back({G, CB->getFunction(), CB, "arg-extern:" + n, nullptr});
          continue;
        }
        if (i < Callee->arg_size()) follow(G, Callee->getArg(i), seen, depth + 1);
      }
    } else if (isa<AtomicRMWInst>(U) || isa<AtomicCmpXchgInst>(U)) {
      sites.push_back({G, cast<Instruction>(U)->getFunction(), cast<Instruction>(U), "atomic", nullptr});
    } else if (isa<ReturnInst>(U)) {
      sites.push_back({G, cast<Instruction>(U)->getFunction(), cast<Instruction>(U), "addr-returned", nullptr});
    } else if (isa<GlobalVariable>(U) || isa<Constant>(U)) {
    } else if (auto *I = dyn_cast<Instruction>(U)) {
      sites.push_back({G, I->getFunction(), I, std::string("other:") + I->getOpcodeName(), nullptr});
    }
  }
}

// backward slice of a stored value inside its function: does it depend on a function
// argument or on memory that is not a global / local scalar?  (-O0: locals live in allocas)
static void slice(const Value *V, std::set<const Value *> &seen, bool &arg, bool &glob, int &budget) {
  if (!V || !seen.insert(V).second || budget-- <= 0) return;
  if (isa<Argument>(V)) { arg = true; return; }
  if (isa<GlobalVariable>(V)) { if (!cast<GlobalVariable>(V)->isConstant()) glob = true; return; }
  if (isa<Constant>(V)) {
    if (auto *CE = dyn_cast<ConstantExpr>(V)) for (auto &O : CE->operands()) slice(O, seen, arg, glob, budget);
    return;
  }
  if (auto *LI = dyn_cast<LoadInst>(V)) {
    const Value *P = LI->getPointerOperand()->stripPointerCasts();
    if (auto *AI = dyn_cast<AllocaInst>(P)) {
      for (const User *U : AI->users())
        if (auto *SI = dyn_cast<StoreInst>(U)) { if (SI->getPointerOperand()->stripPointerCasts() == AI) slice(SI->getValueOperand(), seen, arg, glob, budget); }
        else if (auto *CB = dyn_cast<CallBase>(U)) { if (!isa<DbgInfoIntrinsic>(CB) && !CB->getCalledFunction()->isIntrinsic()) arg = true; }
      return;
    }
    slice(P, seen, arg, glob, budget);   // address computation decides: global table read vs. instance memory
    return;
  }
  if (auto *AI = dyn_cast<AllocaInst>(V)) { (void)AI; return; }
  if (auto *CB = dyn_cast<CallBase>(V)) {
    for (auto &A : CB->args()) slice(A, seen, arg, glob, budget);
    return;
  }
  if (auto *I = dyn_cast<Instruction>(V)) {
    for (auto &O : I->operands()) slice(O, seen, arg, glob, budget);
    return;
  }
}

int main(int argc, char **argv) {
  if (argc < 3) { errs() << "usage: opnir all.bc out.json\n"; return 2; }
  LLVMContext C;
  SMDiagnostic E;
  auto M = parseIRFile(argv[1], E, C);
  if (!M) { E.print(argv[0], errs()); return 2; }

  std::map<const Function *, int> fid;
  int n = 0;
  for (auto &F : *M) fid[&F] = n++;

  auto sig = [](FunctionType *T) {
    std::string s;
    raw_string_ostream os(s);
    auto pt = [&](Type *t) { if (t->isPointerTy()) os << "p"; else t->print(os); os << ","; };
    pt(T->getReturnType());
    os << "(";
    for (auto *P : T->params()) pt(P);
    os << (T->isVarArg() ? "..." : "") << ")";
    return os.str();
  };
  std::map<std::string, std::vector<const Function *>> addrTaken;
  for (auto &F : *M) if (F.hasAddressTaken()) addrTaken[sig(F.getFunctionType())].push_back(&F);

  const std::set<std::string> special = {"abort", "__assert_fail", "__cxa_throw", "__cxa_allocate_exception", "_Znwm", "_Znam", "malloc", "calloc", "realloc",
                                         "_ZSt20__throw_length_errorPKc", "_ZSt17__throw_bad_allocv", "exit", "_ZSt9terminatev", "_ZdlPv", "_ZdaPv", "free",
                                         "_ZSt24__throw_out_of_range_fmtPKcz", "_ZSt19__throw_logic_errorPKc", "_ZSt20__throw_out_of_rangePKc"};

  json::Array fns;
  for (auto &F : *M) {
    json::Object fo;
    fo["id"] = fid[&F];
    fo["name"] = F.getName().str();
    fo["dname"] = dm(F.getName());
    fo["defined"] = !F.isDeclaration();
    fo["external"] = F.hasExternalLinkage();
    fo["addr_taken"] = F.hasAddressTaken();
    if (auto *SP = F.getSubprogram()) { fo["file"] = SP->getFilename().str(); fo["line"] = (int64_t)SP->getLine(); }
    std::set<int> direct, indirect;
    json::Array sp;
    int nind = 0;
    for (auto &B : F) for (auto &I : B) if (auto *CB = dyn_cast<CallBase>(&I)) {
      if (isa<DbgInfoIntrinsic>(CB)) continue;
      const Function *Cal = CB->getCalledFunction();
      if (!Cal) { const Value *cv = CB->getCalledOperand()->stripPointerCasts(); Cal = dyn_cast<Function>(cv); }
      if (Cal) {
        direct.insert(fid[Cal]);
        if (special.count(Cal->getName().str())) {
          json::Object so; so["callee"] = Cal->getName().str(); so["loc"] = loc(&I);
          // inlined-at chain: the location where the enclosing source function was written
          sp.push_back(std::move(so));
        }
      } else {
        nind++;
        for (auto *T : addrTaken[sig(CB->getFunctionType())]) indirect.insert(fid[T]);
      }
    }
    json::Array d, ind;
    for (int x : direct) d.push_back(x);
    for (int x : indirect) ind.push_back(x);
    fo["callees"] = std::move(d);
    fo["icallees"] = std::move(ind);
    fo["n_indirect_sites"] = nind;
    fo["special"] = std::move(sp);
    fns.push_back(std::move(fo));
  }

  json::Array globs;
  for (auto &G : M->globals()) {
    if (G.isDeclaration()) continue;
    if (G.getName().startswith("llvm.")) continue;
    json::Object go;
    go["name"] = G.getName().str();
    go["dname"] = dm(G.getName());
    go["const"] = G.isConstant();
    go["internal"] = G.hasInternalLinkage() || G.hasPrivateLinkage();
    SmallVector<DIGlobalVariableExpression *, 1> dbg;
    G.getDebugInfo(dbg);
    if (!dbg.empty()) {
      auto *DV = dbg[0]->getVariable();
      go["file"] = DV->getFilename().str();
      go["line"] = (int64_t)DV->getLine();
      go["srcname"] = DV->getName().str();
      if (auto *Sc = DV->getScope()) if (auto *SP = dyn_cast<DISubprogram>(Sc)) go["scope_fn"] = SP->getName().str();
    }
    go["bytes"] = (int64_t)M->getDataLayout().getTypeAllocSize(G.getValueType());
    if (G.isConstant()) { globs.push_back(std::move(go)); continue; }
    sites.clear();
    std::set<const Value *> seen;
    follow(&G, &G, seen, 0);
    json::Array ss;
    for (auto &S : sites) {
      json::Object so;
      so["fn"] = fid[S.F];
      so["kind"] = S.kind;
      so["loc"] = loc(S.I);
      if (S.val) {
        bool arg = false, glob = false; int budget = 4000;
        std::set<const Value *> sn;
        slice(S.val, sn, arg, glob, budget);
        so["dep_arg"] = arg;
        so["dep_glob"] = glob;
        so["slice_exhausted"] = budget <= 0;
        if (auto *CI = dyn_cast<ConstantInt>(S.val)) so["const_val"] = CI->getSExtValue();
      }
      ss.push_back(std::move(so));
    }
    go["sites"] = std::move(ss);
    go["guarded"] = guards.count(&G) > 0;
    globs.push_back(std::move(go));
  }
  // guard variables are recognised after the fact (a guard's own sites were collected before
  // its companion was seen); mark them
  json::Object top;
  top["functions"] = std::move(fns);
  top["globals"] = std::move(globs);
  std::error_code EC;
  raw_fd_ostream os(argv[2], EC);
  os << json::Value(std::move(top)) << "\n";
  return 0;
}
