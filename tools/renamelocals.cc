// Maintainer tool (never run by a registered check): renames every function-scope variable (locals, not parameters) and, with
// --params, every parameter of the functions defined in files below --root/src (vendored chips excluded) by appending a suffix.
// Used to produce a behaviour-preserving control ("rename all locals") against which every check must stay silent.
//   renamelocals -p <builddir> --root <tree> [--suffix _rn] [--params] <sources...>      (rewrites the files in place)
#include "clang/AST/ASTConsumer.h"
#include "clang/AST/RecursiveASTVisitor.h"
#include "clang/Frontend/FrontendActions.h"
#include "clang/Tooling/CommonOptionsParser.h"
#include "clang/Tooling/Refactoring.h"
#include "clang/Tooling/Tooling.h"
#include "llvm/Support/CommandLine.h"
#include <set>

using namespace clang;
using namespace clang::tooling;

static llvm::cl::OptionCategory Cat("renamelocals");
static llvm::cl::opt<std::string> Root("root", llvm::cl::desc("tree root"), llvm::cl::cat(Cat));
static llvm::cl::opt<std::string> Suffix("suffix", llvm::cl::init("_rn"), llvm::cl::cat(Cat));
static llvm::cl::opt<bool> Params("params", llvm::cl::init(false), llvm::cl::cat(Cat));

static std::map<std::string, Replacements> *Repls;

class V : public RecursiveASTVisitor<V> {
public:
    explicit V(ASTContext &C) : Ctx(C), SM(C.getSourceManager()) {}
    bool shouldVisitTemplateInstantiations() const { return false; }

    bool wanted(const VarDecl *D) {
        if (!D || !D->getIdentifier() || D->getName().empty()) return false;
        if (isa<ParmVarDecl>(D)) {
            if (!Params) return false;
            const auto *FD = dyn_cast_or_null<FunctionDecl>(D->getDeclContext());
            if (!FD || !FD->doesThisDeclarationHaveABody()) return false;      // only the definition's parameters
        } else if (!D->isLocalVarDecl()) return false;
        if (D->isStaticLocal()) return false;                                   // keeps the names the IR facts use for function statics
        SourceLocation L = D->getLocation();
        if (L.isInvalid() || L.isMacroID()) return false;
        return inTree(L);
    }
    bool inTree(SourceLocation L) {
        std::string F = SM.getFilename(SM.getSpellingLoc(L)).str();
        if (F.find(Root + "/src/") != 0) return false;
        if (F.find("/src/chips/") != std::string::npos && F.find("/src/chips/opn_chip_base") == std::string::npos) return false;
        return true;
    }
    // pass 1: collect every mention; a variable that is mentioned from inside a macro BODY (the macro names it itself) keeps its name
    void mention(SourceLocation L, const VarDecl *D) {
        if (L.isInvalid()) return;
        if (L.isMacroID()) {
            if (SM.isMacroArgExpansion(L)) L = SM.getSpellingLoc(L);     // written by the user as a macro argument
            else { Bad.insert(D->getCanonicalDecl()); return; }
        }
        if (!inTree(L)) { Bad.insert(D->getCanonicalDecl()); return; }
        Mentions.push_back({L, D->getCanonicalDecl()});
    }
    bool VisitVarDecl(VarDecl *D) {
        if (wanted(D)) mention(D->getLocation(), D);
        return true;
    }
    bool VisitDeclRefExpr(DeclRefExpr *E) {
        if (const auto *D = dyn_cast<VarDecl>(E->getDecl()))
            if (wanted(D)) mention(E->getLocation(), D);
        return true;
    }
    void emit() {
        for (auto &M : Mentions) {
            if (Bad.count(M.second)) continue;
            Replacement R(SM, M.first, M.second->getName().size(), (M.second->getName() + Suffix).str());
            auto Err = (*Repls)[std::string(R.getFilePath())].add(R);
            if (Err) llvm::consumeError(std::move(Err));       // identical replacement from another translation unit
        }
    }
    std::vector<std::pair<SourceLocation, const VarDecl *>> Mentions;
    std::set<const VarDecl *> Bad;
private:
    ASTContext &Ctx;
    SourceManager &SM;
};

class Consumer : public ASTConsumer {
public:
    void HandleTranslationUnit(ASTContext &C) override { V v(C); v.TraverseDecl(C.getTranslationUnitDecl()); v.emit(); }
};
class Action : public ASTFrontendAction {
public:
    std::unique_ptr<ASTConsumer> CreateASTConsumer(CompilerInstance &, StringRef) override { return std::make_unique<Consumer>(); }
};

int main(int argc, const char **argv) {
    auto P = CommonOptionsParser::create(argc, argv, Cat);
    if (!P) { llvm::errs() << llvm::toString(P.takeError()); return 2; }
    RefactoringTool Tool(P->getCompilations(), P->getSourcePathList());
    Repls = &Tool.getReplacements();
    return Tool.runAndSave(newFrontendActionFactory<Action>().get());
}
