// opnfacts: AST + CFG fact extractor for the libOPNMIDI static checks.
// One JSON document per translation unit:
//   functions[]: resolved name, signature, params, CFG (blocks, statement roots as typed
//                expression trees, terminator condition, case labels), structured body tree
//   globals[]  : variables with static storage (incl. function statics), folded initialisers
//   records[]  : classes/structs defined in repository files: fields, bases, methods
// Nothing here depends on source text: expressions are emitted as resolved trees, integer
// and floating constants are folded by clang's constant evaluator.
#include "clang/AST/ASTConsumer.h"
#include "clang/AST/RecursiveASTVisitor.h"
#include "clang/AST/ParentMap.h"
#include "clang/AST/ExprCXX.h"
#include "clang/AST/StmtCXX.h"
#include "clang/AST/RecordLayout.h"
#include "clang/Analysis/CFG.h"
#include "clang/Frontend/CompilerInstance.h"
#include "clang/Frontend/FrontendAction.h"
#include "clang/Tooling/CommonOptionsParser.h"
#include "clang/Tooling/Tooling.h"
#include "clang/Lex/Lexer.h"
#include "llvm/Support/CommandLine.h"
#include "llvm/Support/JSON.h"
#include <set>
#include <cmath>
using namespace clang;
using namespace clang::tooling;
namespace json = llvm::json;
static llvm::cl::OptionCategory Cat("opnfacts");
static llvm::cl::opt<std::string> Out("o", llvm::cl::cat(Cat), llvm::cl::init("-"));
static llvm::cl::opt<std::string> Root("root", llvm::cl::cat(Cat), llvm::cl::init("/repo"));
static llvm::cl::opt<bool> WithVendored("with-vendored", llvm::cl::cat(Cat), llvm::cl::init(false), llvm::cl::desc("also emit facts for the vendored emulator cores under src/chips/*/"));

struct Ex {
  ASTContext &C;
  const SourceManager &SM;
  Ex(ASTContext &c) : C(c), SM(c.getSourceManager()) {}

  std::string file(SourceLocation L) {
    L = SM.getExpansionLoc(L);
    auto P = SM.getPresumedLoc(L);
    if (!P.isValid()) return "?";
    return std::string(P.getFilename());
  }
  int line(SourceLocation L) {
    L = SM.getExpansionLoc(L);
    auto P = SM.getPresumedLoc(L);
    return P.isValid() ? (int)P.getLine() : 0;
  }
  std::string locs(SourceLocation L) { return file(L) + ":" + std::to_string(line(L)); }
  bool inMacro(SourceLocation L) { return L.isMacroID(); }
  std::string macroName(SourceLocation L) {
    if (!L.isMacroID()) return "";
    return Lexer::getImmediateMacroName(L, SM, C.getLangOpts()).str();
  }
  std::string txt(const Stmt *S) {
    auto r = CharSourceRange::getTokenRange(SM.getExpansionRange(S->getSourceRange()).getAsRange());
    auto t = Lexer::getSourceText(r, SM, C.getLangOpts()).str();
    for (auto &c : t) if (c == '\n' || c == '\t') c = ' ';
    if (t.size() > 100) t = t.substr(0, 100) + "...";
    return t;
  }
  json::Value ty(QualType T) {
    json::Object o;
    if (T->isReferenceType()) { o["ref"] = true; T = T.getNonReferenceType(); }
    QualType CT = T.getCanonicalType();
    o["s"] = CT.getUnqualifiedType().getAsString();
    if (CT.isConstQualified()) o["const"] = true;
    if (CT->isBooleanType()) { o["w"] = 1; o["u"] = true; o["bool"] = true; }
    else if (CT->isIntegralOrEnumerationType()) { o["w"] = (int64_t)C.getTypeSize(CT); o["u"] = CT->isUnsignedIntegerOrEnumerationType(); if (CT->isEnumeralType()) o["enum"] = true; }
    else if (CT->isFloatingType()) { o["f"] = true; o["w"] = (int64_t)C.getTypeSize(CT); }
    else if (CT->isPointerType()) { o["p"] = true; o["pt"] = CT->getPointeeType().getCanonicalType().getUnqualifiedType().getAsString(); }
    else if (auto *CA = C.getAsConstantArrayType(CT)) {
      o["arr"] = (int64_t)CA->getSize().getZExtValue();
      o["el"] = ty(CA->getElementType());
    }
    if (!CT->isIncompleteType() && !CT->isDependentType() && !CT->isFunctionType() && !CT->isVoidType())
      o["sz"] = (int64_t)C.getTypeSizeInChars(CT).getQuantity();
    return std::move(o);
  }

  json::Value declref(const ValueDecl *D) {
    json::Object o;
    o["n"] = D->getQualifiedNameAsString();
    o["id"] = (int64_t)(uintptr_t)D->getCanonicalDecl();
    if (isa<ParmVarDecl>(D)) o["parm"] = true;
    if (auto *VD = dyn_cast<VarDecl>(D)) {
      if (VD->hasGlobalStorage()) o["glob"] = true;
      if (VD->isStaticLocal()) o["slocal"] = true;
    }
    if (isa<FunctionDecl>(D)) o["fn"] = true;
    if (isa<EnumConstantDecl>(D)) o["enumc"] = true;
    return std::move(o);
  }

  json::Value expr(const Stmt *S) {
    if (!S) return nullptr;
    json::Object o;
    if (auto *E0 = dyn_cast<Expr>(S)) {
      Expr::EvalResult R;
      const Expr *E = E0;
      if (!E->isValueDependent() && E->getType()->isIntegralOrEnumerationType() && E->EvaluateAsInt(R, C, Expr::SE_NoSideEffects)) {
        o["c"] = R.Val.getInt().getExtValue();
      } else if (!E->isValueDependent() && E->getType()->isFloatingType()) {
        llvm::APFloat F(0.0);
        if (E->EvaluateAsFloat(F, C, Expr::SE_NoSideEffects)) {
          bool lose; F.convert(llvm::APFloat::IEEEdouble(), llvm::APFloat::rmNearestTiesToEven, &lose);
          double dv = F.convertToDouble();
          if (std::isfinite(dv)) o["fc"] = dv; else { o["fc"] = dv > 0 ? 1.7976931348623157e308 : -1.7976931348623157e308; o["finf"] = true; }
        }
      }
      // outer type (after implicit conversions) and inner
      o["ot"] = ty(E->getType());
      E = E->IgnoreParenImpCasts();
      S = E;
      o["k"] = S->getStmtClassName();
      o["t"] = ty(E->getType());
      o["ln"] = line(E->getBeginLoc());
      if (E->getBeginLoc().isMacroID()) o["mac"] = macroName(E->getBeginLoc());
      if (auto *D = dyn_cast<DeclRefExpr>(E)) {
        json::Object d = std::move(*declref(D->getDecl()).getAsObject());
        for (auto &kv : d) o[kv.first] = std::move(kv.second);
        return std::move(o);
      }
      if (auto *M = dyn_cast<MemberExpr>(E)) {
        o["n"] = M->getMemberDecl()->getQualifiedNameAsString();
        o["b"] = expr(M->getBase());
        o["arrow"] = M->isArrow();
        if (isa<CXXMethodDecl>(M->getMemberDecl())) o["method"] = true;
        return std::move(o);
      }
      if (isa<CXXThisExpr>(E)) return std::move(o);
      if (auto *B = dyn_cast<BinaryOperator>(E)) {
        o["op"] = B->getOpcodeStr().str();
        o["l"] = expr(B->getLHS());
        o["r"] = expr(B->getRHS());
        if (auto *CA = dyn_cast<CompoundAssignOperator>(B)) o["ct"] = ty(CA->getComputationResultType());
        return std::move(o);
      }
      if (auto *U = dyn_cast<UnaryOperator>(E)) {
        o["op"] = UnaryOperator::getOpcodeStr(U->getOpcode()).str();
        o["post"] = U->isPostfix();
        o["e"] = expr(U->getSubExpr());
        return std::move(o);
      }
      if (auto *A = dyn_cast<ArraySubscriptExpr>(E)) {
        o["b"] = expr(A->getBase());
        o["i"] = expr(A->getIdx());
        if (auto *CA = C.getAsConstantArrayType(A->getBase()->IgnoreParenImpCasts()->getType()))
          o["ext"] = (int64_t)CA->getSize().getZExtValue();
        return std::move(o);
      }
      if (auto *CO = dyn_cast<ConditionalOperator>(E)) {
        o["cnd"] = expr(CO->getCond());
        o["l"] = expr(CO->getTrueExpr());
        o["r"] = expr(CO->getFalseExpr());
        return std::move(o);
      }
      if (auto *CE = dyn_cast<ExplicitCastExpr>(E)) {
        o["e"] = expr(CE->getSubExpr());
        return std::move(o);
      }
      if (auto *CE = dyn_cast<CallExpr>(E)) {
        if (auto *FD = CE->getDirectCallee()) {
          o["callee"] = FD->getQualifiedNameAsString();
          o["cloc"] = locs(FD->getLocation());
          if (auto *MD = dyn_cast<CXXMethodDecl>(FD)) { if (MD->isVirtual()) o["virt"] = true; if (MD->isConst()) o["cmeth"] = true; }
          json::Array pts;
          for (auto *P : FD->parameters()) pts.push_back(ty(P->getType()));
          o["pt"] = std::move(pts);
          if (auto *TA = FD->getTemplateSpecializationArgs()) {
            json::Array tas;
            for (auto &A : TA->asArray())
              if (A.getKind() == TemplateArgument::Type) tas.push_back(ty(A.getAsType()));
            o["ctargs"] = std::move(tas);
          }
        } else
          o["callee_e"] = expr(CE->getCallee());
        if (auto *MC = dyn_cast<CXXMemberCallExpr>(CE)) o["obj"] = expr(MC->getImplicitObjectArgument());
        json::Array a;
        for (auto *Ar : CE->arguments()) a.push_back(expr(Ar));
        o["a"] = std::move(a);
        return std::move(o);
      }
      if (auto *CC = dyn_cast<CXXConstructExpr>(E)) {
        o["callee"] = CC->getConstructor()->getQualifiedNameAsString();
        o["ctor"] = true;
        json::Array a;
        for (auto *Ar : CC->arguments()) a.push_back(expr(Ar));
        o["a"] = std::move(a);
        return std::move(o);
      }
      if (auto *NE = dyn_cast<CXXNewExpr>(E)) {
        o["newt"] = ty(NE->getAllocatedType());
        if (NE->isArray() && NE->getArraySize()) o["count"] = expr(*NE->getArraySize());
        if (NE->getConstructExpr()) o["init"] = expr(NE->getConstructExpr());
        return std::move(o);
      }
      if (auto *DE = dyn_cast<CXXDeleteExpr>(E)) { o["e"] = expr(DE->getArgument()); return std::move(o); }
      if (auto *MT = dyn_cast<MaterializeTemporaryExpr>(E)) return expr(MT->getSubExpr());
      if (auto *BT = dyn_cast<CXXBindTemporaryExpr>(E)) return expr(BT->getSubExpr());
      if (auto *EW = dyn_cast<ExprWithCleanups>(E)) return expr(EW->getSubExpr());
      if (auto *CE2 = dyn_cast<ConstantExpr>(E)) return expr(CE2->getSubExpr());
      if (auto *SL = dyn_cast<StringLiteral>(E)) {
        if (SL->getCharByteWidth() == 1) o["str"] = SL->getBytes().str().substr(0, 200);
        o["len"] = (int64_t)SL->getLength();
        return std::move(o);
      }
      if (auto *IL = dyn_cast<InitListExpr>(E)) {
        json::Array a;
        for (auto *I : IL->inits()) a.push_back(expr(I));
        o["inits"] = std::move(a);
        return std::move(o);
      }
      if (auto *UE = dyn_cast<UnaryExprOrTypeTraitExpr>(E)) {
        if (UE->getKind() == UETT_SizeOf) o["sizeof"] = true;
        if (UE->isArgumentType()) o["argt"] = ty(UE->getArgumentType());
        else o["e"] = expr(UE->getArgumentExpr());
        return std::move(o);
      }
      if (isa<IntegerLiteral>(E) || isa<FloatingLiteral>(E) || isa<CharacterLiteral>(E) || isa<CXXBoolLiteralExpr>(E) || isa<CXXNullPtrLiteralExpr>(E) || isa<GNUNullExpr>(E))
        return std::move(o);
      if (auto *TE = dyn_cast<CXXThrowExpr>(E)) { o["e"] = expr(TE->getSubExpr()); return std::move(o); }
      o["txt"] = txt(E);
      json::Array ch;
      for (auto *K : E->children()) ch.push_back(expr(K));
      o["ch"] = std::move(ch);
      return std::move(o);
    }
    o["k"] = S->getStmtClassName();
    o["ln"] = line(S->getBeginLoc());
    if (S->getBeginLoc().isMacroID()) o["mac"] = macroName(S->getBeginLoc());
    if (auto *DS = dyn_cast<DeclStmt>(S)) {
      json::Array ds;
      for (auto *D : DS->decls())
        if (auto *VD = dyn_cast<VarDecl>(D)) {
          json::Object v;
          v["n"] = VD->getNameAsString();
          v["qn"] = VD->getQualifiedNameAsString();
          v["id"] = (int64_t)(uintptr_t)VD->getCanonicalDecl();
          v["t"] = ty(VD->getType());
          if (VD->getType()->isReferenceType()) v["ref"] = true;
          if (VD->isStaticLocal()) v["static"] = true;
          if (VD->hasInit()) v["init"] = expr(VD->getInit());
          ds.push_back(std::move(v));
        }
      o["decls"] = std::move(ds);
      return std::move(o);
    }
    if (auto *R = dyn_cast<ReturnStmt>(S)) { o["e"] = expr(R->getRetValue()); return std::move(o); }
    return std::move(o);
  }

  // structured statement tree
  json::Value tree(const Stmt *S) {
    if (!S) return nullptr;
    if (isa<Expr>(S) || isa<DeclStmt>(S) || isa<ReturnStmt>(S)) return expr(S);
    json::Object o;
    o["k"] = S->getStmtClassName();
    o["ln"] = line(S->getBeginLoc());
    if (S->getBeginLoc().isMacroID()) o["mac"] = macroName(S->getBeginLoc());
    if (auto *CS = dyn_cast<CompoundStmt>(S)) {
      json::Array a;
      for (auto *K : CS->body()) a.push_back(tree(K));
      o["body"] = std::move(a);
    } else if (auto *I = dyn_cast<IfStmt>(S)) {
      if (I->getConditionVariableDeclStmt()) o["cvar"] = expr(I->getConditionVariableDeclStmt());
      o["cond"] = expr(I->getCond());
      o["then"] = tree(I->getThen());
      o["else"] = tree(I->getElse());
    } else if (auto *F = dyn_cast<ForStmt>(S)) {
      o["init"] = tree(F->getInit());
      o["cond"] = expr(F->getCond());
      o["inc"] = expr(F->getInc());
      o["body"] = tree(F->getBody());
    } else if (auto *W = dyn_cast<WhileStmt>(S)) {
      o["cond"] = expr(W->getCond());
      o["body"] = tree(W->getBody());
    } else if (auto *D = dyn_cast<DoStmt>(S)) {
      o["cond"] = expr(D->getCond());
      o["body"] = tree(D->getBody());
    } else if (auto *SW = dyn_cast<SwitchStmt>(S)) {
      o["cond"] = expr(SW->getCond());
      o["body"] = tree(SW->getBody());
    } else if (auto *CA = dyn_cast<CaseStmt>(S)) {
      Expr::EvalResult R;
      if (CA->getLHS()->EvaluateAsInt(R, C)) o["value"] = R.Val.getInt().getExtValue();
      if (CA->getRHS() && CA->getRHS()->EvaluateAsInt(R, C)) o["hi"] = R.Val.getInt().getExtValue();
      o["sub"] = tree(CA->getSubStmt());
    } else if (auto *DF = dyn_cast<DefaultStmt>(S)) {
      o["sub"] = tree(DF->getSubStmt());
    } else if (auto *L = dyn_cast<LabelStmt>(S)) {
      o["label"] = L->getName();
      o["sub"] = tree(L->getSubStmt());
    } else if (auto *G = dyn_cast<GotoStmt>(S)) {
      o["label"] = G->getLabel()->getName().str();
    } else if (auto *T = dyn_cast<CXXTryStmt>(S)) {
      o["body"] = tree(T->getTryBlock());
      json::Array hs;
      for (unsigned i = 0; i < T->getNumHandlers(); ++i) hs.push_back(tree(T->getHandler(i)->getHandlerBlock()));
      o["handlers"] = std::move(hs);
    }
    return std::move(o);
  }

  json::Value initval(const Expr *E, int depth = 0) {
    if (!E) return nullptr;
    E = E->IgnoreParenImpCasts();
    if (auto *IL = dyn_cast<InitListExpr>(E)) {
      json::Array a;
      for (auto *I : IL->inits()) a.push_back(initval(I, depth + 1));
      if (IL->hasArrayFiller()) { json::Object f; f["filler"] = initval(IL->getArrayFiller(), depth + 1); a.push_back(std::move(f)); }
      return std::move(a);
    }
    if (isa<ImplicitValueInitExpr>(E)) return 0;
    Expr::EvalResult R;
    if (!E->isValueDependent() && E->getType()->isIntegralOrEnumerationType() && E->EvaluateAsInt(R, C, Expr::SE_NoSideEffects))
      return R.Val.getInt().getExtValue();
    if (!E->isValueDependent() && E->getType()->isFloatingType()) {
      llvm::APFloat F(0.0);
      if (E->EvaluateAsFloat(F, C, Expr::SE_NoSideEffects)) {
        bool lose; F.convert(llvm::APFloat::IEEEdouble(), llvm::APFloat::rmNearestTiesToEven, &lose);
        double dv = F.convertToDouble();
        if (!std::isfinite(dv)) dv = dv > 0 ? 1.7976931348623157e308 : -1.7976931348623157e308;
        return dv;
      }
    }
    if (auto *SL = dyn_cast<StringLiteral>(E)) { if (SL->getCharByteWidth() == 1) return SL->getBytes().str(); }
    return expr(E);
  }
};

static bool repoFile(const std::string &f) {
  if (f.find("/usr/") == 0) return false;
  if (f.find("/src/") == std::string::npos && f.find("/include/") == std::string::npos && f.find("/test/") == std::string::npos) return false;
  return true;
}
// vendored emulator cores are outside the AST rules (IR-level rules cover them)
static bool vendored(const std::string &f) {
  if (WithVendored) return false;
  auto p = f.find("/chips/");
  if (p == std::string::npos) return false;
  std::string rest = f.substr(p + 7);
  return rest.find('/') != std::string::npos;
}

struct V : RecursiveASTVisitor<V> {
  ASTContext &C;
  json::Array &Fns, &Globs, &Recs, &Enums;
  Ex X;
  std::set<std::string> seen, seenG, seenR;
  V(ASTContext &c, json::Array &f, json::Array &g, json::Array &r, json::Array &e) : C(c), Fns(f), Globs(g), Recs(r), Enums(e), X(c) {}
  bool shouldVisitTemplateInstantiations() const { return true; }
  bool shouldVisitImplicitCode() const { return false; }

  bool VisitVarDecl(VarDecl *VD) {
    if (!VD->hasGlobalStorage() || isa<ParmVarDecl>(VD)) return true;
    if (VD->getDeclContext()->isDependentContext()) return true;
    std::string f = X.file(VD->getLocation());
    if (!repoFile(f) || vendored(f)) return true;
    if (!VD->isThisDeclarationADefinition() && !VD->hasInit()) return true;
    std::string key = VD->getQualifiedNameAsString() + "@" + X.locs(VD->getLocation());
    if (!seenG.insert(key).second) return true;
    json::Object g;
    g["name"] = VD->getQualifiedNameAsString();
    g["loc"] = X.locs(VD->getLocation());
    g["t"] = X.ty(VD->getType());
    g["const"] = VD->getType().isConstQualified() || (C.getAsArrayType(VD->getType()) && C.getBaseElementType(VD->getType()).isConstQualified());
    if (VD->isStaticLocal()) {
      g["slocal"] = true;
      if (auto *FD = dyn_cast<FunctionDecl>(VD->getDeclContext())) g["fn"] = FD->getQualifiedNameAsString();
    }
    if (VD->hasInit()) g["init"] = X.initval(VD->getInit());
    Globs.push_back(std::move(g));
    return true;
  }

  bool VisitCXXRecordDecl(CXXRecordDecl *RD) {
    if (!RD->isThisDeclarationADefinition() || RD->isDependentContext() || RD->isLambda()) return true;
    std::string f = X.file(RD->getLocation());
    if (!repoFile(f) || vendored(f)) return true;
    std::string key = RD->getQualifiedNameAsString() + "@" + X.locs(RD->getLocation());
    if (!seenR.insert(key).second) return true;
    json::Object r;
    r["name"] = RD->getQualifiedNameAsString();
    r["loc"] = X.locs(RD->getLocation());
    json::Array fs;
    for (auto *F : RD->fields()) {
      json::Object fo;
      fo["n"] = F->getNameAsString();
      fo["t"] = X.ty(F->getType());
      if (F->hasInClassInitializer()) fo["dinit"] = true;
      fs.push_back(std::move(fo));
    }
    r["fields"] = std::move(fs);
    json::Array bs;
    for (auto &B : RD->bases()) bs.push_back(B.getType().getCanonicalType().getAsString());
    r["bases"] = std::move(bs);
    json::Array ms;
    for (auto *M : RD->methods()) {
      json::Object mo;
      mo["n"] = M->getNameAsString();
      mo["virt"] = M->isVirtual();
      mo["pure"] = M->isPure();
      mo["implicit"] = M->isImplicit();
      if (isa<CXXConstructorDecl>(M)) mo["ctor"] = true;
      ms.push_back(std::move(mo));
    }
    r["methods"] = std::move(ms);
    r["has_user_ctor"] = RD->hasUserDeclaredConstructor();
    r["has_user_copy"] = RD->hasUserDeclaredCopyConstructor();
    r["has_user_assign"] = RD->hasUserDeclaredCopyAssignment();
    Recs.push_back(std::move(r));
    return true;
  }
  bool VisitEnumDecl(EnumDecl *ED) {
    if (!ED->isThisDeclarationADefinition() || ED->getDeclContext()->isDependentContext()) return true;
    std::string f = X.file(ED->getLocation());
    if (!repoFile(f) || vendored(f)) return true;
    std::string key = "enum " + ED->getQualifiedNameAsString() + "@" + X.locs(ED->getLocation());
    if (!seenR.insert(key).second) return true;
    json::Object r;
    r["name"] = ED->getQualifiedNameAsString();
    r["loc"] = X.locs(ED->getLocation());
    json::Object cs;
    for (auto *E : ED->enumerators()) cs[E->getNameAsString()] = E->getInitVal().getExtValue();
    r["consts"] = std::move(cs);
    Enums.push_back(std::move(r));
    return true;
  }
  bool VisitRecordDecl(RecordDecl *RD) {   // plain C structs
    if (isa<CXXRecordDecl>(RD)) return true;
    if (!RD->isThisDeclarationADefinition()) return true;
    std::string f = X.file(RD->getLocation());
    if (!repoFile(f) || vendored(f)) return true;
    std::string key = RD->getQualifiedNameAsString() + "@" + X.locs(RD->getLocation());
    if (!seenR.insert(key).second) return true;
    json::Object r;
    r["name"] = RD->getQualifiedNameAsString();
    r["loc"] = X.locs(RD->getLocation());
    json::Array fs;
    for (auto *F : RD->fields()) {
      json::Object fo;
      fo["n"] = F->getNameAsString();
      fo["t"] = X.ty(F->getType());
      fs.push_back(std::move(fo));
    }
    r["fields"] = std::move(fs);
    Recs.push_back(std::move(r));
    return true;
  }

  bool VisitFunctionDecl(FunctionDecl *F) {
    if (!F->doesThisDeclarationHaveABody() || F->isDependentContext()) return true;
    std::string where = X.locs(F->getLocation());
    std::string f = X.file(F->getLocation());
    if (!repoFile(f) || vendored(f)) return true;
    std::string q = F->getQualifiedNameAsString();
    std::string sig = F->getType().getCanonicalType().getAsString();
    // template instantiations: include the template arguments in the key
    std::string targs;
    if (auto *TA = F->getTemplateSpecializationArgs()) {
      llvm::raw_string_ostream os(targs);
      for (auto &A : TA->asArray()) { A.print(C.getPrintingPolicy(), os, true); os << ","; }
    }
    if (auto *MD = dyn_cast<CXXMethodDecl>(F))
      if (auto *SP = dyn_cast<ClassTemplateSpecializationDecl>(MD->getParent())) {
        llvm::raw_string_ostream os(targs);
        for (auto &A : SP->getTemplateArgs().asArray()) { A.print(C.getPrintingPolicy(), os, true); os << ","; }
      }
    std::string key = q + "|" + sig + "|" + targs + "@" + where;
    if (!seen.insert(key).second) return true;
    CFG::BuildOptions BO;
    BO.setAllAlwaysAdd();
    BO.AddInitializers = true;
    auto cfg = CFG::buildCFG(F, F->getBody(), &C, BO);
    if (!cfg) return true;
    ParentMap PM(F->getBody());
    json::Object fo;
    fo["name"] = q;
    fo["sig"] = sig;
    if (!targs.empty()) fo["targs"] = targs;
    fo["loc"] = where;
    fo["file"] = f;
    fo["line"] = X.line(F->getLocation());
    fo["endline"] = X.line(F->getBodyRBrace());
    fo["ret"] = X.ty(F->getReturnType());
    fo["extern_c"] = F->isExternC();
    fo["linkage_external"] = F->hasExternalFormalLinkage();
    if (auto *MD = dyn_cast<CXXMethodDecl>(F)) {
      fo["cls"] = MD->getParent()->getQualifiedNameAsString();
      fo["virt"] = MD->isVirtual();
      fo["static"] = MD->isStatic();
      fo["constm"] = MD->isConst();
      if (auto *CD = dyn_cast<CXXConstructorDecl>(MD)) {
        fo["ctor"] = true;
        fo["copyctor"] = CD->isCopyConstructor();
      }
      if (MD->isCopyAssignmentOperator()) fo["copyassign"] = true;
    }
    json::Array ps;
    for (auto *P : F->parameters()) {
      json::Object p;
      p["n"] = P->getNameAsString();
      p["id"] = (int64_t)(uintptr_t)P->getCanonicalDecl();
      p["t"] = X.ty(P->getType());
      ps.push_back(std::move(p));
    }
    fo["params"] = std::move(ps);
    fo["entry"] = (int64_t)cfg->getEntry().getBlockID();
    fo["exit"] = (int64_t)cfg->getExit().getBlockID();
    json::Array bs;
    for (auto *B : *cfg) {
      json::Object bo;
      bo["id"] = (int64_t)B->getBlockID();
      json::Array su;
      for (auto s : B->succs()) {
        if (auto *T = s.getReachableBlock()) su.push_back((int64_t)T->getBlockID());
        else su.push_back(nullptr);
      }
      bo["succ"] = std::move(su);
      json::Array st;
      for (auto &E : *B) {
        if (auto ci = E.getAs<CFGInitializer>()) {
          auto *I = ci->getInitializer();
          json::Object so, s;
          s["k"] = "CtorInit";
          if (I->isAnyMemberInitializer()) s["field"] = I->getAnyMember()->getQualifiedNameAsString();
          else if (I->isBaseInitializer()) s["base"] = QualType(I->getBaseClass(), 0).getAsString();
          s["init"] = X.expr(I->getInit());
          s["written"] = I->isWritten();
          s["ln"] = X.line(I->getSourceLocation());
          so["loc"] = X.locs(I->getSourceLocation());
          so["s"] = std::move(s);
          st.push_back(std::move(so));
          continue;
        }
        if (auto cs = E.getAs<CFGStmt>()) {
          const Stmt *S = cs->getStmt();
          const Stmt *P = PM.getParent(S);
          // statement roots only
          while (P && (isa<ExprWithCleanups>(P) || isa<ParenExpr>(P))) P = PM.getParent(P);
          if (P && isa<Expr>(P)) continue;
          if (P && isa<DeclStmt>(P)) continue;
          if (P && isa<ReturnStmt>(P)) continue;
          if (isa<Expr>(S) && !P) continue;   // member-initialiser expressions (handled above)
          if (isa<ExprWithCleanups>(S)) continue;   // its sub-expression is an element of its own
          if (isa<Expr>(S) && P) {
            // condition expressions are reported through "cond"
            const Stmt *Cnd = nullptr;
            if (auto *X1 = dyn_cast<IfStmt>(P)) Cnd = X1->getCond();
            else if (auto *X2 = dyn_cast<WhileStmt>(P)) Cnd = X2->getCond();
            else if (auto *X3 = dyn_cast<DoStmt>(P)) Cnd = X3->getCond();
            else if (auto *X4 = dyn_cast<SwitchStmt>(P)) Cnd = X4->getCond();
            if (Cnd) {
              const Stmt *Q = S;
              bool isCond = false;
              // S (or a cleanup wrapper above it) is the condition itself
              for (const Stmt *W = S; W; W = PM.getParent(W)) { if (W == Cnd) { isCond = true; break; } if (!isa<ExprWithCleanups>(PM.getParent(W)) && !isa<ParenExpr>(PM.getParent(W)) && PM.getParent(W) != Cnd) break; }
              (void)Q;
              if (isCond) continue;
            }
          }
          if (isa<Expr>(S) && P && isa<ForStmt>(P) && cast<ForStmt>(P)->getCond() == S) continue;
          json::Object so;
          so["loc"] = X.locs(S->getBeginLoc());
          so["s"] = X.expr(S);
          st.push_back(std::move(so));
        }
      }
      bo["stmts"] = std::move(st);
      if (const Stmt *T = B->getTerminatorStmt()) {
        bo["term"] = T->getStmtClassName();
        bo["tln"] = X.line(T->getBeginLoc());
        if (const Expr *c = B->getLastCondition()) {
          bo["cond"] = X.expr(c);
          bo["cloc"] = X.locs(c->getBeginLoc());
        }
      }
      if (const Stmt *L = B->getLabel()) {
        if (auto *CS = dyn_cast<CaseStmt>(L)) {
          Expr::EvalResult R;
          if (CS->getLHS()->EvaluateAsInt(R, C)) bo["case"] = R.Val.getInt().getExtValue();
          // consecutive case labels on one block
          json::Array cs2;
          const Stmt *cur = CS;
          while (auto *c2 = dyn_cast_or_null<CaseStmt>(cur)) {
            if (c2->getLHS()->EvaluateAsInt(R, C)) cs2.push_back(R.Val.getInt().getExtValue());
            cur = c2->getSubStmt();
          }
          if (dyn_cast_or_null<DefaultStmt>(cur)) bo["default"] = true;
          bo["cases"] = std::move(cs2);
        } else if (auto *DS = dyn_cast<DefaultStmt>(L)) {
          bo["default"] = true;
          json::Array cs2;
          const Stmt *cur = DS->getSubStmt();
          Expr::EvalResult R;
          while (auto *c2 = dyn_cast_or_null<CaseStmt>(cur)) {
            if (c2->getLHS()->EvaluateAsInt(R, C)) cs2.push_back(R.Val.getInt().getExtValue());
            cur = c2->getSubStmt();
          }
          bo["cases"] = std::move(cs2);
        }
      }
      bs.push_back(std::move(bo));
    }
    fo["blocks"] = std::move(bs);
    fo["tree"] = X.tree(F->getBody());
    Fns.push_back(std::move(fo));
    return true;
  }
};

struct Cons : ASTConsumer {
  void HandleTranslationUnit(ASTContext &C) override {
    json::Array fns, globs, recs, enums;
    V v(C, fns, globs, recs, enums);
    v.TraverseDecl(C.getTranslationUnitDecl());
    std::error_code EC;
    llvm::raw_fd_ostream os(Out, EC);
    json::Object top;
    top["functions"] = std::move(fns);
    top["globals"] = std::move(globs);
    top["records"] = std::move(recs);
    top["enums"] = std::move(enums);
    os << json::Value(std::move(top)) << "\n";
  }
};
struct Act : ASTFrontendAction {
  std::unique_ptr<ASTConsumer> CreateASTConsumer(CompilerInstance &CI, StringRef) override {
    CI.getDiagnostics().setSuppressAllDiagnostics(false);
    return std::make_unique<Cons>();
  }
};
int main(int argc, const char **argv) {
  auto P = CommonOptionsParser::create(argc, argv, Cat);
  if (!P) { llvm::errs() << P.takeError(); return 1; }
  ClangTool T(P->getCompilations(), P->getSourcePathList());
  return T.run(newFrontendActionFactory<Act>().get());
}
