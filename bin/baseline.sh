#!/bin/sh
# Builds /repo (guard OPNMIDI_VERIF off: it is never defined by the project's build) in a scratch
# directory with the unit tests enabled and runs the 11 baseline tests.
set -e
REPO=${VERIF_REPO:-/repo}
D=$(mktemp -d /tmp/vf-baseline-XXXXXX)
trap 'rm -rf "$D"' EXIT
cmake -G Ninja -S "$REPO" -B "$D" -DWITH_UNIT_TESTS=ON -DCMAKE_BUILD_TYPE=RelWithDebInfo >/dev/null 2>&1
cmake --build "$D" -j16 >/dev/null
ctest --test-dir "$D" -j8 --timeout 900
