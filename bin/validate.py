#!/usr/bin/env python3-vt
import json, sys, glob, jsonschema
m = json.load(open('/verif/MANIFEST.json'))
jsonschema.validate(m, json.load(open('/root/.vp/MANIFEST.schema.json')))
es = json.load(open('/root/.vp/EVIDENCE.schema.json'))
ids = {json.loads(l)['id'] for l in open('/verif/properties.jsonl')}
claimed = {c['property_id'] for c in m['checks']}
na = {c['property_id'] for c in m.get('not_applicable', [])}
assert claimed | na == ids and not (claimed & na), (ids - claimed - na, claimed & na)
for c in m['checks']:
    p = '/verif/' + c['evidence_file']
    try:
        jsonschema.validate(json.load(open(p)), es)
    except FileNotFoundError:
        print('missing evidence', p)
print('manifest ok: claimed', sorted(claimed))
