#!/usr/bin/env python3
"""maintainer tool: regenerates section 7 of DESIGN.md (implementation record) from the evidence files, seeded/*/meta.json,
seeded/RESULTS.json and seeded/FIRST_RUN.json.  The prose lives here; the tables are data."""
import json, glob, os, re
V = '/verif'


def rules_table():
    rows = ['| rule | decides | sites | discharged / assumed / known | floor |', '|---|---|---|---|---|']
    for i in range(1, 20):
        ev = json.load(open('%s/evidence/C%02d.json' % (V, i)))
        for rid, r in ev['coverage']['rules'].items():
            rows.append('| %s | %s | %d | %d / %d / %d | %d |' % (rid, r['text'], r['obligations'], r['discharged'], r['assumed'], r['known_findings'], r['floor']))
    return '\n'.join(rows)


def clean_title(pid, t):
    t = re.sub(r'^(Seed(ed defect)? [A-K]\b\s*(\(%s\))?\s*[-—:]\s*)' % pid, '', t)
    t = re.sub(r'^%s\s*(/|seed)\s*(change |seeded defect |seed )?[A-K]\s*[-—:]\s*' % pid, '', t, flags=re.I)
    t = re.sub(r'^Seed %s-[A-K]:\s*' % pid, '', t)
    t = re.sub(r'^[A-K]\s*[-—:]\s*', '', t)
    return t.strip()


def seeds_tables():
    res = json.load(open(V + '/seeded/RESULTS.json'))
    out = []
    rows = ['| seed | round | change (one line) | reported by (current rules) |', '|---|---|---|---|']
    n_tot = n_rep = 0
    for mp in sorted(glob.glob(V + '/seeded/C*/meta.json')):
        m = json.load(open(mp))
        for s in m['seeds']:
            rnd = {'A': 1, 'B': 1, 'C': 2, 'D': 2, 'E': 3, 'F': 3, 'G': 4, 'H': 4, 'I': 5, 'J': 5, 'K': 8}.get(s['name'], '?')
            r = res.get('%s/%s' % (m['property'], s['name']), {})
            by = ', '.join(' '.join(v['rules']) or p for p, v in sorted(r.items()) if isinstance(v, dict) and v.get('rc') == 1)
            if s.get('neutralised_by'):
                by = 'no longer a behaviour change since fix %s' % s['neutralised_by']
            elif not by:
                by = '**not detected** (see 7.6)'
            if not s.get('neutralised_by'):
                n_tot += 1
                n_rep += 0 if by.startswith('**') else 1
            rows.append('| %s/%s | %s | %s | %s |' % (m['property'], s['name'], rnd, clean_title(m['property'], s['title'])[:140], by))
    out.append('\n'.join(rows))
    own = ['| own mutant | reported by |', '|---|---|']
    for k, v in sorted(res.items()):
        if k.startswith('own/'):
            by = ', '.join(' '.join(x['rules']) or p for p, x in sorted(v.items()) if isinstance(x, dict) and x.get('rc') == 1)
            broken = sorted(p for p, x in v.items() if isinstance(x, dict) and x.get('rc') not in (0, 1))
            if k.endswith('.equiv') and (by or broken):
                by = '**false alarm**: ' + (by + ' ' if by else '') + ('ANALYSIS-BROKEN (exit 2) in %s' % ', '.join(broken) if broken else '') + ' - see 7.6'
            if v.get('error'):
                by = 'patch does not apply to the current tree'
            own.append('| %s | %s |' % (k[4:], by or ('silent (expected: behaviour-preserving edit)' if k.endswith('.equiv') else 'MISSED')))
    out.append('\n'.join(own))
    reg = ['| fix commit reverted | reported by |', '|---|---|']
    for k, v in res.items():
        if k.startswith('regress/'):
            by = ', '.join(' '.join(x['rules']) or p for p, x in sorted(v.items()) if isinstance(x, dict) and x.get('rc') == 1)
            reg.append('| %s | %s |' % (k[8:], by or 'MISSED'))
    out.append('\n'.join(reg))
    return out, n_tot, n_rep


def first_run():
    fr = json.load(open(V + '/seeded/FIRST_RUN.json'))
    rows = ['| round | seeds that change behaviour | reported on the first run (own check / sibling check) | not reported on the first run |', '|---|---|---|---|']
    for k in sorted(x for x in fr if x.startswith('round')):
        r = fr[k]
        rows.append('| %s | %s | %s | %s |' % (k[5:], r.get('effective', '?'), r.get('reported', '?'), ', '.join(r['missed'])))
    return '\n'.join(rows)


(seeds, own, reg), n_tot, n_rep = seeds_tables()
res = json.load(open(V + '/seeded/RESULTS.json'))
n_own = sum(1 for k in res if k.startswith('own/') and not k.endswith('.equiv'))
n_eq = sum(1 for k in res if k.endswith('.equiv'))
n_reg = sum(1 for k in res if k.startswith('regress/'))
n_own_ok = sum(1 for k, v in res.items() if k.startswith('own/') and not k.endswith('.equiv') and any(isinstance(x, dict) and x.get('rc') == 1 for x in v.values()))
n_reg_ok = sum(1 for k, v in res.items() if k.startswith('regress/') and any(isinstance(x, dict) and x.get('rc') == 1 for x in v.values()))
n_eq_ok = sum(1 for k, v in res.items() if k.endswith('.equiv') and all(isinstance(x, dict) and x.get('rc') == 0 for x in v.values()))

SEC = open(V + '/bin/design7.md.in').read()
SEC = SEC.replace('@@RULES@@', rules_table()).replace('@@SEEDS@@', seeds).replace('@@OWN@@', own).replace('@@REGRESS@@', reg).replace('@@FIRSTRUN@@', first_run())
SEC = SEC.replace('@@NTOT@@', str(n_tot)).replace('@@NREP@@', str(n_rep)).replace('@@NOWN@@', '%d/%d' % (n_own_ok, n_own)).replace('@@NREG@@', '%d/%d' % (n_reg_ok, n_reg)).replace('@@NEQ@@', '%d/%d' % (n_eq_ok, n_eq))
s = open(V + '/DESIGN.md').read()
mark = '\n---------------------------------------------------------------------------------------\n\n## 7. Implementation record'
if mark in s:
    s = s[:s.index(mark)]
open(V + '/DESIGN.md', 'w').write(s.rstrip('\n') + '\n' + SEC)
print('DESIGN.md section 7 regenerated: %d lines' % SEC.count('\n'))
