#!/usr/bin/env python3
"""maintainer helper: bin/register.py Cxx 'technique' 'level text' 'level note'  — adds/updates a check entry in MANIFEST.json"""
import json, sys
pid, tech, text, note = sys.argv[1:5]
m = json.load(open('/verif/MANIFEST.json'))
m['checks'] = [c for c in m['checks'] if c['property_id'] != pid]
m['checks'].append({"property_id": pid, "quick_cmd": "bin/vf check %s --tier quick" % pid, "thorough_cmd": "bin/vf check %s --tier thorough" % pid,
                    "evidence_file": "evidence/%s.json" % pid, "replay_cmd_template": "bin/vf replay {path}", "engine": "vf", "technique": tech,
                    "level_claimed": {"category": "other", "text": text, "design_ref": "DESIGN.md section 4, " + pid}, "level_note": note})
m['not_applicable'] = [x for x in m['not_applicable'] if x['property_id'] != pid]
m['checks'].sort(key=lambda c: c['property_id'])
for e in m['engines']:
    if e['name'] in ('opnfacts', 'vf'):
        e['serves_properties'] = sorted(set(e['serves_properties']) | {pid})
json.dump(m, open('/verif/MANIFEST.json', 'w'), indent=1)
print('registered', pid)
