#!/bin/sh
# Builds the two extractors from /verif/tools. Offline; needs only clang-14/llvm-14 from the image.
set -e
cd "$(dirname "$0")"
mkdir -p build evidence reports
LIBS="/usr/lib/llvm-14/lib/libclang-cpp.so.14 /usr/lib/llvm-14/lib/libLLVM-14.so"
CXXFLAGS="$(llvm-config-14 --cxxflags) -fno-rtti -O1 -w"
build() {
  src=tools/$1.cc; out=build/$1
  if [ ! -x "$out" ] || [ "$src" -nt "$out" ]; then
    clang++ $CXXFLAGS "$src" -o "$out" $LIBS
  fi
}
build opnfacts &
build opnir &
wait
test -x build/opnfacts && test -x build/opnir
echo "setup ok"
